"""Per-property metadata used by the evidence writer."""
RULE_ASSUME = ["A-py", "A-regex", "A-dateutil", "A-rank", "A-log", "A-noalias"]
PROPS = {
    "C01": {"level": "proof", "assumptions": RULE_ASSUME + ["A-lib"]},
    "C02": {"level": "proof", "assumptions": RULE_ASSUME},
    "C03": {"level": "proof", "assumptions": RULE_ASSUME},
    "C04": {"level": "proof", "assumptions": RULE_ASSUME},
    "C05": {"level": "proof", "assumptions": RULE_ASSUME},
    "C06": {"level": "proof", "assumptions": RULE_ASSUME},
    "C07": {"level": "proof", "assumptions": RULE_ASSUME},
    "C08": {"level": "proof", "assumptions": RULE_ASSUME},
    "C20": {"level": "proof", "assumptions": RULE_ASSUME},
    "C12": {"level": "proof", "assumptions": ["A-py", "A-log", "A-noalias"]},
    "C15": {"level": "proof", "assumptions": ["A-py", "A-log", "A-noalias", "A-regex"]},
    "C19": {"level": "proof", "assumptions": ["A-py", "A-regex"]},
    "C09": {"level": "proof", "assumptions": ["A-py", "A-regex", "A-rank"]},
    "C18": {"level": "proof", "assumptions": ["A-py", "A-regex"]},
    "C10": {"level": "proof", "assumptions": ["A-py", "A-regex", "A-lib"]},
    "C11": {"level": "exploration", "assumptions": ["A-py", "A-regex"],
            "rule": "bounded stand-in on the real _preprocess_string: every code point as single separator (distinct = code points + distinct outputs of the short-string enumeration; non-trivial = all, each compared with the stated normalisation computed from unicodedata); plus 3 deductive obligations (case-insensitive compilation, am/pm case)"},
    "C16": {"level": "proof", "assumptions": ["A-py", "A-real", "A-lib"]},
    "C17": {"level": "proof", "assumptions": ["A-py", "A-lib", "A-real", "A-analysis"]},
    "C13": {"level": "proof", "assumptions": ["A-py", "A-lib"]},
    "C14": {"level": "proof", "assumptions": ["A-py", "A-lib", "A-real"]},
}

TECHNIQUE = "contract-based deductive verification (sidecar pre/postconditions, frames, invariants on the real source; own VC generation; z3/cvc5)"
NOTES = "exit codes: 0 held / 1 VIOLATION / 2 undecided / 3 checker error. See DESIGN.md."
NOT_APPLICABLE = {}
BR = " Text-level link (regex engine finds the tokens; the contracted candidate wins the ranking) is A-regex + A-rank: not proved; sampled by the bounded text-level bridge (surface forms of the specification grammar x reference times through the real ctparse; listed under coverage.bounded), whose failures are violations unless they fall into a region of known_findings.json."
_T = {
 "C01": ("every rule body (discovered from the AST), proved free of exceptional exits for all reference times 1970-2100 and all well-formed arguments; result kind",
         "trusted: Python-subset semantics (A-py), dateutil/datetime contracts (A-dateutil), regex engine (A-regex), logger calls dropped (A-log)."),
 "C02": ("well-formedness invariant wf(Time/Interval/Duration) = first sentence of C02 is pre- and postcondition of all rules: each rule's `wf-result` obligation is discharged for all inputs",
         "field ranges of regex groups are recomputed from the pattern constants each run (A-regex); A-dateutil; A-py."),
 "C03": ("functional postconditions of the relative-day rules against a closed-form Gregorian ordinal spec, for all reference times 1970-2100", "A-dateutil, A-py." + BR),
 "C04": ("written-fields-preserved / not-in-the-past / nearest postconditions of the latent rules (Skolemised counter-date)", "A-dateutil (incl. rrule), A-py." + BR),
 "C05": ("date rules return exactly the written day/month/year, independent of ts except the two documented windows", "A-regex (group values), A-py." + BR),
 "C06": ("clock rules against an (hour, minute, am/pm) spec incl. 12am/12pm", "A-regex, A-py." + BR),
 "C07": ("range rules: ends as written, ordering guards, 12h / next-day wrap, 0 < length <= 24h; auxiliary inductive invariant on date-less clock ranges", "A-dateutil, A-py." + BR),
 "C08": ("duration rules: amount and unit as written; date + N units by calendar arithmetic; N-days consistency", "A-dateutil, A-regex, A-py." + BR),
 "C09": ("span clause: rule wrapper, latent post-processing, apply_rule and RegexMatch.__init__ keep an exact span (span-covers-arguments, span-preserved, span-ends-at-the-last-non-blank-character); RegLan lemma per pattern: no word of L(p) starts with a blank; per pattern, decided on the parse tree of the real pattern string: no unguarded letter run reaches across a blank inside the match to the edge of the match (patterns that have such runs are examined run by run against adversarial inert neighbour words, BOUNDED); length term of the score is a constant shift", "resolution invariance under inert context is relational through regex engine + ranking: the lemma 'matches on the embedded text = matches on the expression' is decided statically only for patterns without edge runs, otherwise bounded (adversarial inert words x expression pool through the real ctparse) together with the context bridge (corpus and grammar expressions among 0-3 inert words)."),
 "C10": ("_get_labels executed on abstract text: result is the order-preserving map m -> m.replace('#','') over re.findall(P, txt); RegLan lemmas: every valid hashtag is found whole by the finding pattern and removed whole by the stripping pattern, which is the same constant on both paths and touches only '#'-words; ctparse() no-match branch computes subject and labels by the very pipeline term the prefix of _ctparse computes (terms compared structurally)", "text processing by re/regex/str methods is uninterpreted (A-regex, A-lib); 'drops every word inside a match the resolution was built from, keeps the inert words in order' is a BOUNDED stand-in on the real ctparse (ctparse._ctparse.subject[bounded]: inert texts x multi-word expressions in both word orders x positions, judged when the resolution spans the whole expression; listed under coverage.bounded, not counted as proved); invariance of the resolution under hashtags is not covered (relational, through the regex engine and ranking)."),
 "C13": ("timers.timeout/_tt executed with a ghost list of clock reads: timeout 0 never reads the clock nor raises, otherwise exactly one read and raise iff now-start > timeout; ghost work counter over _ctparse/_regex_stack: every loop over an N-sized collection starts each iteration with the deadline check, work between checks is independent of N; all check sites inside the try whose handler only ends the stream; check result unused (prefix lemma); ctparse()/ctparse_gen forward timeout unchanged", "work = from_regex_matches/apply_rule/score/score_final calls and the N-sized collections are sidecar annotations; real clock assumed monotone; counter-models replayed with a virtual clock patched into ctparse.timers.perf_counter."),
 "C14": ("ctparse() executed on a stream of ANY length N >= 1 (list of symbolic length, scores an uninterpreted function of the element): the result is a stream element and no element scores higher; on streams of 0..3 concrete candidates additionally: empty resolution iff empty stream, every option forwarded unchanged to the stream (also documented defaults); ctparse_gen yields every candidate of _ctparse in order", "list.sort enters the any-length proof through its trusted contract (the new order is a permutation of the old one under which the keys ascend: A-py); the 2- and 3-element units execute a stable insertion sort with symbolic keys and are listed as bounded (they give replayable counter-models when the selection is broken); floats as reals; emission-dedup invariant of _ctparse: see C14 emission unit; finiteness of NB scores: C16."),
 "C11": ("bounded, exhaustive for single code points: the real _preprocess_string equals the stated normalisation for every code point U+0000..U+10FFFF as separator and for all strings up to length 5 (thorough: 7) over class representatives (idempotent, trimmed, runs collapsed); deductive part: every rule regex is compiled as defines+(?i)+pattern with VERSION1, and the am/pm clock contract holds for every letter case", "no Python-level control flow to put a contract on (two calls into the C regex engine): claimed as exploration, not proof. Equality of resolutions of case/separator variants end-to-end is A-regex + A-rank (not covered). Code points on which the regex module's Unicode tables and unicodedata disagree are listed as version skew."),
 "C16": ("straight-line algebra proved on the real code over the reals: score/score_final = log-odds + (1000x) log(covered/len(text)) with features = rule trace; predict_log_probability = joint - log-sum-exp per document (accumulators per document); class prior = (log share neg, log share pos); Laplace-smoothed likelihoods with denominator T_c + alpha*V; lemma: posteriors exponentiate to probabilities summing to one; no exceptional exit (log arguments > 0)", "floats as reals with uninterpreted log/exp (A-real); documents/vocabulary unrolled to small fixed shapes with symbolic counts; vectoriser + fit + predict + save/load compared with an independent textbook implementation on an exhaustive small scope: BOUNDED stand-in, listed under coverage.bounded and not counted as proved; shipped-model-on-corpus clause is data, not covered."),
 "C17": ("make_partial_rule_dataset executed with a stubbed candidate stream: exactly one sample per trace prefix in order, every label = value equality (real __eq__) of resolution and gold for all kinds, candidates generated with latent_time=False and the given options; train_naive_bayes builds CountVectorizer((1,3)) + MultinomialNaiveBayes(1.0) with +-1 labels; value equality and text form from C18; class prior order from C16", "monotonicity under duplication of a positive example: the estimator contracts (prior, Laplace-smoothed likelihoods, posterior; shared with C16) + two discharged lemmas (prior odds do not fall; likelihood of a one-feature document does not fall; log only through instantiated monotonicity) + the convexity of log(1+1/x) for documents with several features (paper step, A-analysis, DESIGN A.9) + a BOUNDED stand-in on the real training entry point (small exhaustive scope and seeded random corpora with repeated n-grams); run_corpus compares nb_str() strings (equivalent to value equality by C18's round trip, paper step)."),
 "C18": ("the real Artifact.__eq__/__hash__ executed on two symbolic values of every pair of kinds: == iff same kind and value (spans free), equal values hash equal; the real __str__/nb_str/from_str/parse_nb_string executed on structured strings: parse(text form) is value-equal; Interval round trip modular over the Time contracts", "A-py (str.format of non-negative ints, int() of digit strings, tuple hashing by value); _TIME_REGEX.match is executed by a small matcher over structured strings (A-regex for the real engine); injectivity of the text form is the logical corollary of the round trip (not a separate obligation); 'every gold string of the bundled dataset' is data, not covered."),
 "C20": ("gluing rules keep the date of the date part and the clock of the clock part, both orders; the weekday rules reached with and without a following clock (ruleAtDOW, ruleLatentDOW) name the same day", "A-py." + BR),
 "C12": ("frame obligations: no function under contract stores into an object that existed before the call or into module-level state, results are fresh or an argument; static clauses over every function reachable from a parse (AST of the real source): writes no module-level state, iterates no set in hash order", "A-py, A-noalias; the static clauses are syntactic (aliases of module-level objects and sets passed through calls are not seen); threads are not expressible as contracts (not covered). Failures are replayed by module snapshots around parses and by sub-processes with different PYTHONHASHSEED."),
 "C15": ("_match_rule for sequences of any length (loop invariants: sound, complete, ascending); apply_rule splice / trace / inherited rules; one iteration of the production loop and the initial filter of _ctparse over symbolic dedup tables; from_regex_matches; gap contract; PartialParse ordering; predicate constructors; frame obligations of all rule bodies and the wrapper (a candidate does not change after it was yielded); eq/hash agreement behind the dedup tables; no-alias invariant of productions", "bounded stand-ins (listed, never counted as proved): the rule pre-filter and _regex_stack for small sizes, and the whole search against a naive reference closure of rule applications on short texts for five scorers (sound / complete / traces / termination); the clauses of the search-step fragments count only with that behavioural replay; A-py, A-regex."),
 "C19": ("the registry as it stands after import, checked completely: unique rule names, every definition registered, id maps inverse / contiguous / in source order, no two adjacent patterns, no pattern matches the empty string (RegLan), every predicate name has a stated meaning, part-of-day closure, the shipped model's vocabulary names existing rules and patterns; cover obligation per rule (the rule can fire on well-formed arguments, its pattern dimensions are value kinds); the real rule() decorator executed on a scratch registry state", "A-regex, A-py."),
}
for k, (t, n) in _T.items():
    PROPS[k]["text"] = t
    PROPS[k]["note"] = n

# what each check does NOT decide (goes verbatim into coverage.not_covered of the evidence)
NOT_COVERED = {
 "C01": "termination of the search as a whole (measure argument on paper: DESIGN B.4/C01; the reference search has a 30 s watchdog on short texts); exceptions inside the regex C engines and inside user-supplied scorers; __repr__/__str__ of logged values",
 "C02": "nothing beyond the assumptions: every producer of a value is under contract; the regex group ranges are recomputed from the pattern constants each run",
 "C03": "that the contracted candidate wins the ranking on every text (A-rank; sampled by the bridge)",
 "C04": "that the contracted candidate wins the ranking on every text (A-rank; sampled by the bridge)",
 "C05": "that the contracted candidate wins the ranking on every text (A-rank; sampled by the bridge)",
 "C06": "ranking (A-rank): one open known finding ('3 in the afternoon'); any other text-level failure of the bridge is a violation",
 "C07": "that the contracted candidate wins the ranking on every text (A-rank; sampled by the bridge)",
 "C08": "ranking (A-rank): one open known finding ('1 night'); any other text-level failure of the bridge is a violation",
 "C09": "the resolution clause for arbitrary texts: decided statically only for patterns without unguarded runs across a blank; otherwise bounded (adversarial inert neighbour words, context bridge)",
 "C10": "'drops every word inside a match the resolution was built from' and invariance of the resolution under hashtags (relational through the regex engine and the ranking): bounded pools only",
 "C11": "end-to-end equality of resolutions for variants beyond the pool (A-regex + A-rank); code points on which the regex module's Unicode tables and unicodedata disagree are listed as version skew",
 "C12": "threads; writes through an alias of a module-level object; sets reaching an iteration through a call",
 "C13": "the real clock (assumed monotone); work done inside a single rule application or a single scorer call",
 "C14": "IEEE rounding of scores (floats as reals); the trusted contract of list.sort",
 "C15": "the pre-filter and _regex_stack for arbitrary sizes and the whole search on arbitrary texts (bounded: small sizes; reference closure on short texts for five scorers)",
 "C16": "vectoriser / fit / predict for arbitrary corpora (bounded: exhaustive small scope against an independent textbook implementation); pickle internals; the shipped model on the bundled corpus (data)",
 "C17": "the convexity step of the duplication argument (paper, A-analysis); every entry of the bundled dataset (data)",
 "C18": "every gold string of the bundled dataset (data); injectivity of the text form is a corollary of the round trip, not a separate obligation",
 "C19": "nothing beyond the assumptions: the registry is checked completely as it stands after import",
 "C20": "that the contracted candidate wins the ranking on every text (A-rank; sampled by the bridge; excluded by the property: 12:xx directly followed by German 'am <day>')",
}
for k, v in NOT_COVERED.items():
    PROPS[k]["not_covered"] = v
