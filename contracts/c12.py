"""C12, static frame conditions over the whole package (decided on the AST of the real source, every run).

The executor's frame events cover the functions it executes symbolically.  Two clauses are syntactic
and hold for EVERY function that can run during a parse (name-based call graph from ctparse,
ctparse_gen and the scorer entry points), including the ones only covered by bounded stand-ins:

  writes-no-module-level-state   no assignment / deletion / augmented assignment through a name
      bound at module level (or declared `global`), and no call of a mutating container method on
      such a name, unless the name is shadowed by a local binding.  (The registries of rule.py are
      written by the decorator at import time only: `rule`, `_map` are not reachable from a parse.)
  iterates-no-set-in-hash-order   no `for` / comprehension / list() / tuple() / join / dict.fromkeys /
      update over a value built by set(...) / a set display / a set comprehension (directly or
      through a local name) unless wrapped in sorted(): string hashes differ between processes, so
      such an iteration order -- and every float sum computed along it -- is not a function of the
      arguments.

A failure is replayed on the real code: module-level state by snapshots around parses (incl. a
half-consumed stream and a second parse of the same text with another scorer), hash order by
running the parser in sub-processes with different PYTHONHASHSEED and comparing scores bit by bit.
"""
import ast

from pyvc.vcgen import Obligation
from pyvc.values import Unsupported

MUTATORS = {"append", "extend", "insert", "pop", "remove", "clear", "update", "setdefault", "add", "discard", "popitem",
            "sort", "reverse", "__setitem__", "__delitem__", "appendleft", "popleft", "move_to_end"}
ENTRY = ["ctparse", "ctparse_gen", "score", "score_final", "apply_postprocessing_rules", "predict_log_proba"]
# import-time registration (the @rule decorator): runs when a module that defines rules is imported, not during a
# parse; the registries as they stand after import are checked completely by C19 (rule.registry)
IMPORT_TIME = {"rule.rule"}        # and the functions nested directly in it, whatever their names (the wrapper, one level deeper, runs during a parse and is checked)
ORDER_CONSUMERS = {"list", "tuple", "enumerate", "iter", "next", "zip", "map", "filter", "sum", "min", "max", "reversed"}


def _module_level_names(tree):
    out = set()
    for s in tree.body:
        for t in ast.walk(s) if isinstance(s, (ast.Assign, ast.AnnAssign, ast.AugAssign)) else ():
            pass
        if isinstance(s, ast.Assign):
            for t in s.targets:
                for n in ast.walk(t):
                    if isinstance(n, ast.Name):
                        out.add(n.id)
        elif isinstance(s, (ast.AnnAssign, ast.AugAssign)) and isinstance(s.target, ast.Name):
            out.add(s.target.id)
    return out


def _local_bindings(fn):
    """names bound inside the function itself (parameters, assignments, loop / with / except / comprehension
    targets, imports, nested defs); `global` names are not local"""
    glob, loc = set(), set()
    a = fn.args
    for x in a.posonlyargs + a.args + a.kwonlyargs + ([a.vararg] if a.vararg else []) + ([a.kwarg] if a.kwarg else []):
        loc.add(x.arg)

    def visit(node, top):
        for c in ast.iter_child_nodes(node):
            if isinstance(c, (ast.FunctionDef, ast.AsyncFunctionDef, ast.ClassDef)):
                loc.add(c.name)
                continue                      # its body has its own scope
            if isinstance(c, ast.Lambda):
                continue
            if isinstance(c, ast.Global):
                glob.update(c.names)
            if isinstance(c, ast.Name) and isinstance(c.ctx, ast.Store):
                loc.add(c.id)
            if isinstance(c, (ast.Import, ast.ImportFrom)):
                for al in c.names:
                    loc.add((al.asname or al.name).split(".")[0])
            if isinstance(c, ast.ExceptHandler) and c.name:
                loc.add(c.name)
            visit(c, False)
    visit(fn, True)
    return loc - glob, glob


def _own_nodes(fn):
    """nodes of the function body without the bodies of nested functions / classes"""
    todo = list(ast.iter_child_nodes(fn))
    while todo:
        n = todo.pop()
        yield n
        if isinstance(n, (ast.FunctionDef, ast.AsyncFunctionDef, ast.ClassDef, ast.Lambda)):
            continue
        todo.extend(ast.iter_child_nodes(n))


def _root_name(e):
    while isinstance(e, (ast.Subscript, ast.Attribute)):
        e = e.value
    return e.id if isinstance(e, ast.Name) else None


def module_state_writes(fn, modnames, outer_locals=frozenset()):
    loc, glob = _local_bindings(fn)
    loc = loc | set(outer_locals)
    is_mod = lambda name: name is not None and ((name in modnames and name not in loc) or name in glob)
    out = []
    for n in _own_nodes(fn):
        if isinstance(n, (ast.Assign, ast.AugAssign, ast.AnnAssign, ast.Delete)):
            targets = n.targets if isinstance(n, (ast.Assign, ast.Delete)) else [n.target]
            for t in targets:
                for tt in (t.elts if isinstance(t, (ast.Tuple, ast.List)) else [t]):
                    if isinstance(tt, ast.Name):
                        if tt.id in glob:
                            out.append((n.lineno, "assignment to the global %s" % tt.id))
                    elif isinstance(tt, (ast.Subscript, ast.Attribute)) and is_mod(_root_name(tt)):
                        out.append((n.lineno, "store through the module-level name %s" % _root_name(tt)))
        elif isinstance(n, ast.Call) and isinstance(n.func, ast.Attribute) and n.func.attr in MUTATORS and is_mod(_root_name(n.func.value)):
            # self.x.append(...) etc. have a local root (self); only module-level roots are reported
            out.append((n.lineno, "%s() on the module-level object %s" % (n.func.attr, _root_name(n.func.value))))
    return out


def _is_set_expr(e, setvars):
    if isinstance(e, (ast.Set, ast.SetComp)):
        return True
    if isinstance(e, ast.Call) and isinstance(e.func, ast.Name) and e.func.id in ("set", "frozenset"):
        return True
    if isinstance(e, ast.Name) and e.id in setvars:
        return True
    if isinstance(e, ast.BinOp) and isinstance(e.op, (ast.BitOr, ast.BitAnd, ast.Sub, ast.BitXor)):
        return _is_set_expr(e.left, setvars) or _is_set_expr(e.right, setvars)
    if isinstance(e, ast.Call) and isinstance(e.func, ast.Attribute) and e.func.attr in ("union", "intersection", "difference", "symmetric_difference", "copy") \
            and _is_set_expr(e.func.value, setvars):
        return True
    return False


def set_order_uses(fn):
    setvars = set()
    nodes = list(_own_nodes(fn))
    changed = True
    while changed:
        changed = False
        for n in nodes:
            if isinstance(n, (ast.Assign, ast.AnnAssign)) and n.value is not None and _is_set_expr(n.value, setvars):
                for t in (n.targets if isinstance(n, ast.Assign) else [n.target]):
                    if isinstance(t, ast.Name) and t.id not in setvars:
                        setvars.add(t.id)
                        changed = True
    out = []
    for n in nodes:
        if isinstance(n, (ast.For, ast.AsyncFor)) and _is_set_expr(n.iter, setvars):
            out.append((n.lineno, "for loop over a set"))
        elif isinstance(n, (ast.ListComp, ast.GeneratorExp, ast.DictComp)):
            for g in n.generators:
                if _is_set_expr(g.iter, setvars):
                    out.append((n.lineno, "comprehension over a set"))
        elif isinstance(n, ast.Call):
            f = n.func
            name = f.id if isinstance(f, ast.Name) else (f.attr if isinstance(f, ast.Attribute) else None)
            args = list(n.args) + [k.value for k in n.keywords]
            if name in ORDER_CONSUMERS and any(_is_set_expr(a, setvars) for a in args):
                out.append((n.lineno, "%s() over a set" % name))
            elif name in ("join", "fromkeys", "update", "extend") and any(_is_set_expr(a, setvars) for a in args):
                # dict.fromkeys(set) / d.update(dict.fromkeys(set)) / list.extend(set): insertion order = hash order
                out.append((n.lineno, "%s() fed with a set" % name))
    return out


class StaticFrameUnit:
    kind = "static"
    name = "package.static-frame"
    qualnames = ["ctparse.ctparse", "ctparse.ctparse_gen", "ctparse._ctparse"]
    props = {"C12"}
    cost = 1

    def sha(self, world):
        import hashlib
        return hashlib.sha256("".join(sorted(m.src for m in world.modules.values())).encode()).hexdigest()[:16]

    def run(self, world, prop, tier):
        reach = set(world.reach(ENTRY))
        obs = []

        def ob(fname, clause, problems, kind):
            o = Obligation(fname, clause, ["C12"])
            o.kind = "static"
            o.paths = 1
            o.queries = 1
            o.backend["trivial"] += 1
            if problems:
                o.status = "failed"
                o.detail = "; ".join("line %d: %s" % p for p in problems[:4])
                o.cex = {"args": {"kind": kind, "where": ["line %d: %s" % p for p in problems]}}
            obs.append(o)
        for mname, m in sorted(world.modules.items()):
            if not mname.startswith("ctparse"):
                continue
            modnames = _module_level_names(m.tree)
            short = mname.split(".", 1)[1] if "." in mname else mname

            def walk(node, prefix, outer):
                for c in ast.iter_child_nodes(node):
                    if isinstance(c, (ast.FunctionDef, ast.AsyncFunctionDef)):
                        q = "%s.%s" % (prefix, c.name)
                        if c.name in reach and q not in IMPORT_TIME and not (q.startswith("rule.rule.") and q.count(".") == 2):
                            ob(q, "writes-no-module-level-state", module_state_writes(c, modnames, outer), "module-state")
                            ob(q, "iterates-no-set-in-hash-order", set_order_uses(c), "hash-order")
                        loc, _ = _local_bindings(c)
                        walk(c, q, set(outer) | loc)
                    elif isinstance(c, ast.ClassDef):
                        walk(c, "%s.%s" % (prefix, c.name), outer)
                    elif not isinstance(c, (ast.Lambda,)):
                        walk(c, prefix, outer)
            walk(m.tree, short, frozenset())
        if len(obs) < 20:
            raise Unsupported("static frame unit found only %d clauses: the call graph from %s is broken" % (len(obs), ENTRY))
        return obs, {"paths": len(obs), "assumptions": [
            "static frame clauses are syntactic: writes through an alias of a module-level object (x = REGISTRY; x.append) and sets reaching an "
            "iteration through a call are not seen; call graph by function name from %s" % ", ".join(ENTRY)]}


def units(world):
    return [StaticFrameUnit()]
