"""Contracts of the production rules of ctparse/time/rules.py.

Every FunctionDef decorated with @rule(...) -- discovered from the AST on each
run -- gets the *generic* contract generated from its decorator arguments:

  requires  wf_ts(ts), and for each argument: wf(arg), wf_span(arg), the declared
            predicate (evaluated with the REAL predicate()/dimension()/is* code),
            and for regex arguments the match-shape facts of the pattern (A-regex)
  ensures   result is None or a Time/Interval/Duration that is wf            (C02)
  raises    nothing                                                           (C01)
  modifies  nothing that existed before the call                              (C12, C15)
  cover     the rule can fire (some feasible path returns a value)            (C19)

plus the rule-specific postconditions of DESIGN appendix A (contracts/rule_specs.py).
"""
import ast
import z3

from pyvc.values import FuncVal, ClassVal, Obj, SOpt, SEnum, EnumMember, Unsupported, PyRaise
from pyvc.interp import Interp, Frame
from pyvc.logic import And, Or, Not, Implies
from pyvc import symargs
from pyvc.vcgen import merged_formula
from spec import wf as WF
from spec.views import kind, fld, v, has


class ArgSpec:
    def __init__(self, kindname, tag, pid=None, pred=None, dim=None, cls=None):
        self.kind = kindname      # 'regex' | 'predicate' | 'dimension'
        self.tag = tag
        self.pid = pid
        self.pred = pred
        self.dim = dim
        self.cls = cls            # class name of the symbolic object to build
        self.closure = None       # the real predicate closure (FuncVal)


class RuleTask:
    def __init__(self, name, func, argspecs, variant=""):
        self.name = name
        self.func = func
        self.argspecs = argspecs
        self.variant = variant
        self.pred_formula = None

    @property
    def qualname(self):
        return "rules." + self.name + (("[" + self.variant + "]") if self.variant else "")


def wf_value(world, o):
    from contracts.generic import wf_value as g
    return g(world.pod_table(), o)


def discover(world, strict=True):
    """-> list of RuleTask (one per rule and per class a predicate argument can have)"""
    m = world.modules["ctparse.time.rules"]
    rulemod = world.modules["ctparse.rule"]
    it = Interp(world)
    modfunc = FuncVal(ast.parse("def __module__(): pass").body[0], m, None, qualname="rules")
    fr = Frame(modfunc)
    tasks = []
    registry = {n: ps for n, ps in world.consts["registry"]}
    seen = {}
    for node, deco in world.rule_defs():
        params = [a.arg for a in node.args.args]
        specs = []
        for i, a in enumerate(deco.args):
            tag = params[i + 1] if i + 1 < len(params) else "a%d" % i
            if tag == "_":
                tag = "_%d" % i
            val = it.eval(a, fr)
            if isinstance(val, str):
                if val not in world.str_regex:
                    raise RuntimeError("engine disagreement: pattern of %s not in the registry of the imported module" % node.name)
                specs.append(ArgSpec("regex", tag, pid=world.str_regex[val], cls="RegexMatch"))
            elif isinstance(val, FuncVal) and val.name == "_predicate":
                sp = ArgSpec("predicate", tag, pred=val.env.vars["pred"])
                sp.closure = val
                specs.append(sp)
            elif isinstance(val, FuncVal) and val.name == "_dimension":
                sp = ArgSpec("dimension", tag, dim=val.env.vars["dim"].name, cls=val.env.vars["dim"].name)
                sp.closure = val
                specs.append(sp)
            else:
                raise Unsupported("rule pattern %r of %s" % (val, node.name))
        # cross-check with the registry of the imported module
        reg = registry.get(node.name)
        mine = [[s.kind, s.pid if s.kind == "regex" else (s.pred if s.kind == "predicate" else s.dim)] for s in specs]
        ndefs = sum(1 for n2, _ in world.rule_defs() if n2.name == node.name)
        if ndefs > 1 or not strict:
            pass   # duplicate definition: C19 reports it; the later one is what the registry holds
        elif reg is not None and reg != mine:
            raise RuntimeError("engine disagreement on the patterns of %s: ast %r vs registry %r" % (node.name, mine, reg))
        seen[node.name] = True
        # a predicate argument can be an object of any class that defines the attribute
        choices = []
        for s in specs:
            if s.kind == "predicate":
                cs = [c for c in ("Time", "Interval", "Duration") if world.classes[c].lookup(s.pred)[0] is not None]
                choices.append(cs or ["Time"])
            else:
                choices.append([s.cls])
        import itertools
        combos = list(itertools.product(*choices))
        f = m.globals[node.name]
        if f.node is not node:
            f = FuncVal(node, m, None, qualname="rules." + node.name)
        for combo in combos:
            sp2 = []
            for s, c in zip(specs, combo):
                n = ArgSpec(s.kind, s.tag, s.pid, s.pred, s.dim, c)
                n.closure = s.closure
                sp2.append(n)
            variant = ",".join(combo) if len(combos) > 1 else ""
            tasks.append(RuleTask(node.name, f, sp2, variant))
    return tasks


def build_args(it, world, task, with_pred=True):
    """create ts and the symbolic arguments, assume the generic precondition"""
    ts = symargs.mk_ts("ts")
    it.assume(WF.wf_ts(ts))
    args = []
    for s in task.argspecs:
        if s.cls == "RegexMatch":
            o = symargs.mk_regexmatch(it, world, s.pid, s.tag)
        elif s.cls == "Time":
            o = symargs.mk_time(it, world, s.tag)
        elif s.cls == "Interval":
            o = symargs.mk_interval(it, world, s.tag)
        elif s.cls == "Duration":
            o = symargs.mk_duration(it, world, s.tag)
        else:
            raise Unsupported("argument class %s" % s.cls)
        it.assume(wf_value(world, o))
        if s.cls == "Interval":
            it.assume(WF.aux_interval(o))
        it.assume(WF.wf_span(o))
        args.append(o)
    for a, b in zip(args, args[1:]):
        it.assume(v(a, "mend") <= v(b, "mstart"))
    if with_pred and task.pred_formula is not None:
        it.assume(task.pred_formula)
    return [ts] + args


def compute_pred_formula(world, task):
    """the declared predicates, evaluated by running the REAL predicate closures on the symbolic arguments"""
    idx = [i for i, s in enumerate(task.argspecs) if s.kind in ("predicate", "dimension")]
    if not idx:
        task.pred_formula = True
        return

    def setup(it):
        return build_args(it, world, task, with_pred=False)

    def fn(it, args):
        r = True
        for i in idx:
            r = And(r, it.truthy(it.call(task.argspecs[i].closure, [args[i + 1]], {})))
        return r
    task.pred_formula = merged_formula(world, setup, fn)


def rule_ensures(world, task):
    from contracts.generic import rule_clauses

    def ensures(it, args, res):
        return rule_clauses(task.name, world.pod_table(), it.ghost, args[0], args[1:], res)
    return ensures
