"""C13: the deadline closure of timers.timeout and the placement of deadline checks."""
import ast
import z3

from pyvc.values import Obj, Tok, UTerm, Unsupported, PyRaise, BoundMethod
from pyvc.logic import And, Or, Not, Implies
from pyvc.vcgen import Obligation
from contracts.extra import FuncUnit

WORK_CALLS = ("from_regex_matches", "score", "score_final", "apply_rule")
N_SIZED = {"ctparse._ctparse": ("regex_stack", "stack"), "ctparse._regex_stack": ("stack",)}
CHECK_NAMES = {"ctparse._ctparse": "t_fun", "ctparse._regex_stack": "on_do_iter"}


def timer_units(world):
    out = []

    def mk(zero):
        def setup(it, w):
            t = 0 if zero else z3.Real("timeout")
            if not zero:
                it.assume(t != 0)
            return [t]

        def call(it, w, a):
            clo = it.call(w.func("timers.timeout"), [a[0]], {})
            n0 = len(it.ghost.get("perf_reads", []))
            raised = False
            try:
                r = it.call(clo, [], {})
            except PyRaise as e:
                if e.cls != "CTParseTimeoutError":
                    raise
                raised, r = True, None
            return (raised, r, n0, list(it.ghost.get("perf_reads", [])))

        def ens(it, w, a, res):
            raised, r, n0, reads = res
            if zero:
                return [("timeout-0-never-expires-and-reads-no-clock", ["C13"], (not raised) and r is None and len(reads) == n0)]
            ok_reads = len(reads) == n0 + 1 and n0 == 1
            expired = reads[-1] - reads[0] > a[0] if ok_reads else False
            return [("one-clock-read-per-check", ["C13"], ok_reads),
                    ("raises-iff-deadline-passed", ["C13"], (expired if raised else Not(expired)) if ok_reads else False),
                    ("check-returns-nothing", ["C13"], raised or r is None)]
        return FuncUnit("timers.timeout._tt[%s]" % ("timeout=0" if zero else "timeout!=0"), ["timers.timeout"],
                        ["C13", "C12"], setup, call, ens, prop_map={"safety": ["C13"], "frame": ["C12"]})
    out.append(mk(True))
    out.append(mk(False))

    def mk_any_state():
        """the same contract for a check made in ANY state of the closure: every variable the closure keeps
        besides the deadline itself (timeout, start_time) is given an arbitrary value of its type before the
        call -- an over-approximation of the reachable states, so a failure counts only when the virtual-clock
        replay of the real closure confirms it (a check that is skipped on some calls, a clock read cached
        between calls)"""
        def setup(it, w):
            t = z3.Real("timeout")
            it.assume(t != 0)
            return [t, {}]

        def call(it, w, a):
            clo = it.call(w.func("timers.timeout"), [a[0]], {})
            n0 = len(it.ghost.get("perf_reads", []))
            env = getattr(clo, "env", None)
            kept = {}
            if env is not None:
                for name, v in list(env.vars.items()):
                    if name in ("timeout", "start_time") or v is clo:
                        continue
                    if isinstance(v, bool):
                        env.vars[name] = z3.Bool("state." + name)
                    elif isinstance(v, int):
                        env.vars[name] = z3.Int("state." + name)
                    elif isinstance(v, float) or (z3.is_expr(v) and z3.is_real(v)):
                        env.vars[name] = z3.Real("state." + name)
                    else:
                        continue
                    kept[name] = env.vars[name]
            a[1]["state"] = kept
            raised = False
            try:
                r = it.call(clo, [], {})
            except PyRaise as e:
                if e.cls != "CTParseTimeoutError":
                    raise
                raised, r = True, None
            return (raised, r, n0, list(it.ghost.get("perf_reads", [])))

        def ens(it, w, a, res):
            raised, r, n0, reads = res
            ok_reads = len(reads) == n0 + 1 and n0 == 1
            expired = reads[-1] - reads[0] > a[0] if ok_reads else False
            return [("one-clock-read-per-check-in-any-state", ["C13"], ok_reads),
                    ("raises-iff-deadline-passed-in-any-state", ["C13"], (expired if raised else Not(expired)) if ok_reads else False)]
        u = FuncUnit("timers.timeout._tt[any state]", ["timers.timeout"], ["C13"], setup, call, ens,
                     prop_map={"safety": ["C13"], "frame": ["C12"]}, check_frame=False)
        u.shape_only_clauses = ("one-clock-read-per-check-in-any-state", "raises-iff-deadline-passed-in-any-state")
        return u
    out.append(mk_any_state())
    return out


def _is_call_to(node, name):
    return (isinstance(node, ast.Expr) and isinstance(node.value, ast.Call) and isinstance(node.value.func, ast.Name)
            and node.value.func.id == name and not node.value.args and not node.value.keywords)


class GhostWork:
    """abstract interpretation of one function body for the ghost counter W = number of work
    calls since the last deadline check.  Values: an int (bounded by the size of one parse, written
    as a count of work call sites weighted 1 -- loops over per-parse collections make it 'P') or
    'N' (grows with the number of candidate sequences)."""

    def __init__(self, qual, node):
        self.qual = qual
        self.node = node
        self.check = CHECK_NAMES[qual]
        self.nsized = N_SIZED[qual]
        if qual == "ctparse._ctparse":
            # the names of the two N-sized collections and of the deadline check, by their role (robust against renames)
            from contracts.toplevel import search_locals
            nm, _ = search_locals(node)
            seqs = [t.elts[0].id for st in ast.walk(node) if isinstance(st, ast.Assign) for t in st.targets
                    if isinstance(t, ast.Tuple) and t.elts and isinstance(t.elts[0], ast.Name)
                    and any(isinstance(c, ast.Name) and c.id == "_regex_stack" for c in ast.walk(st.value))]
            self.nsized = tuple(sorted(set(seqs[:1] or ["regex_stack"]) | {nm["stack"]}))
            self.check = nm["check"]
        self.problems = []
        self.checked_loops = []

    def iter_is_nsized(self, it):
        if isinstance(it, ast.Name):
            return it.id in self.nsized
        return False

    def work_in_expr(self, e):
        n = 0
        for x in ast.walk(e):
            if isinstance(x, ast.Call) and isinstance(x.func, ast.Attribute) and x.func.attr in WORK_CALLS:
                n += 1
            if isinstance(x, (ast.ListComp, ast.GeneratorExp, ast.SetComp, ast.DictComp)):
                for g in x.generators:
                    if self.iter_is_nsized(g.iter) and any(
                            isinstance(y, ast.Call) and isinstance(y.func, ast.Attribute) and y.func.attr in WORK_CALLS
                            for y in ast.walk(x)):
                        self.problems.append((x.lineno, "comprehension over the N-sized collection '%s' does work without a deadline check" % g.iter.id))
        return n

    def block(self, stmts, w):
        """returns W after the block given W before ('N' is absorbing until a check)"""
        for s in stmts:
            w = self.stmt(s, w)
        return w

    def add(self, w, k):
        return "N" if w == "N" else w + k

    def join(self, a, b):
        if a == "N" or b == "N":
            return "N"
        return max(a, b)

    def stmt(self, s, w):
        if _is_call_to(s, self.check):
            return 0
        if isinstance(s, (ast.For, ast.While)):
            it = s.iter if isinstance(s, ast.For) else s.test
            nsized = self.iter_is_nsized(it) or (isinstance(s, ast.While) and isinstance(it, ast.Name) and it.id in self.nsized)
            if nsized:
                eff = [x for x in s.body if not (isinstance(x, ast.Expr) and (isinstance(x.value, ast.Constant) or (
                    isinstance(x.value, ast.Call) and isinstance(x.value.func, ast.Attribute) and isinstance(x.value.func.value, ast.Name)
                    and x.value.func.value.id == "logger")))]
                first_is_check = bool(eff) and _is_call_to(eff[0], self.check)
                # dry run: does an iteration do any work at all?  (a loop that only filters / copies needs no check)
                np_, nc_ = len(self.problems), len(self.checked_loops)
                works = self.block(s.body, 0) != 0
                del self.problems[np_:], self.checked_loops[nc_:]
                if works or first_is_check:
                    self.checked_loops.append((s.lineno, first_is_check))
                body_after = self.block(s.body, 0 if first_is_check else w)
                if not first_is_check:
                    # without a check at the head of every iteration the work of all iterations adds up
                    does_work = body_after != 0 and body_after != w or self.block(s.body, 0) != 0
                    if does_work:
                        self.problems.append((s.lineno, "loop over the N-sized collection does work but does not start each iteration with %s()" % self.check))
                        return "N"
                    return w
                return self.join(w if False else 0, body_after)
            # a loop over a per-parse collection: its work is bounded by the size of one parse
            head = self.work_in_expr(it) if it is not None else 0
            inner = self.block(s.body, 0)
            if inner == "N":
                return "N"
            return self.add(self.add(w, head), inner)
        if isinstance(s, ast.If):
            w0 = self.add(w, self.work_in_expr(s.test))
            return self.join(self.block(s.body, w0), self.block(s.orelse, w0))
        if isinstance(s, ast.Try):
            return self.block(s.body, w)
        if isinstance(s, (ast.FunctionDef, ast.ClassDef)):
            return w
        k = 0
        for ch in ast.iter_child_nodes(s):
            if isinstance(ch, ast.expr):
                k += self.work_in_expr(ch)
        return self.add(w, k)


class DeadlineUnit:
    kind = "deadline"
    name = "ctparse._ctparse.deadline-checks"
    qualnames = ["ctparse._ctparse", "ctparse._regex_stack"]
    props = {"C13"}
    cost = 1

    def sha(self, world):
        return world.sha(world.func("ctparse._ctparse")) + "+" + world.sha(world.func("ctparse._regex_stack"))

    def run(self, world, prop, tier):
        obs = []

        def ob(func, clause, ok, detail="", cexkind=None):
            o = Obligation(func, clause, ["C13"])
            o.kind = "deadline"
            o.paths = o.queries = 1
            o.backend["trivial"] += 1
            if not ok:
                o.status, o.detail = "failed", detail
                o.cex = {"args": {"kind": cexkind}} if cexkind else None
                o.no_input_expected = cexkind is None
                o.shape_only = cexkind is not None      # structural clause; the virtual-clock replay is the behavioural test
            obs.append(o)
        for qual in ("ctparse._ctparse", "ctparse._regex_stack"):
            f = world.func(qual)
            g = GhostWork(qual, f.node)
            wend = g.block(f.node.body, 0)
            ob(qual, "work-between-deadline-checks-independent-of-the-number-of-sequences",
               not g.problems and wend != "N",
               "; ".join("line %d: %s" % p for p in g.problems) or "ghost counter unbounded at exit", "work-growth")
            ob(qual, "every-sequence-loop-starts-with-a-deadline-check", bool(g.checked_loops) and all(c for _, c in g.checked_loops),
               "loops over candidate sequences (line, starts with check): %s" % g.checked_loops, "work-growth")
        # the check sites of _ctparse lie inside the try whose handler swallows the timeout and ends the stream
        f = world.func("ctparse._ctparse")
        # the deadline closure of _ctparse by its role: the name bound to the result of timers.timeout (imported as timeout_)
        tname = next((st.targets[0].id for st in f.node.body if isinstance(st, ast.Assign) and len(st.targets) == 1
                      and isinstance(st.targets[0], ast.Name) and isinstance(st.value, ast.Call) and isinstance(st.value.func, ast.Name)
                      and st.value.func.id in ("timeout_", "timeout")), CHECK_NAMES["ctparse._ctparse"])
        check_names = dict(CHECK_NAMES)
        check_names["ctparse._ctparse"] = tname
        tries = [s for s in f.node.body if isinstance(s, ast.Try)]
        calls_outside = []
        for s in f.node.body:
            if isinstance(s, ast.Try):
                continue
            for x in ast.walk(s):
                if isinstance(x, ast.Call) and isinstance(x.func, ast.Name) and x.func.id == tname:
                    calls_outside.append(x.lineno)
                if isinstance(x, ast.Call) and any(isinstance(a, ast.Name) and a.id == tname for a in x.args):
                    calls_outside.append(x.lineno)
        ok_try = len(tries) == 1 and not calls_outside
        handler_ok = False
        detail = ""
        if ok_try:
            hs = [h for h in tries[0].handlers if isinstance(h.type, ast.Name) and h.type.id == "CTParseTimeoutError"]
            if len(hs) == 1:
                body = [s for s in hs[0].body if not world.is_logger_call(getattr(s, "value", None))]
                bad = [type(x).__name__ for s in hs[0].body for x in ast.walk(s) if isinstance(x, (ast.Yield, ast.YieldFrom, ast.Raise))]
                handler_ok = not bad and (not body or isinstance(body[-1], (ast.Return, ast.Pass))) and \
                    all(isinstance(s, (ast.Return, ast.Pass)) for s in body)
                detail = "handler does more than end the stream: %s" % (bad or [type(s).__name__ for s in body])
                if handler_ok and isinstance(body[-1] if body else None, ast.Return) and body[-1].value is not None:
                    handler_ok, detail = False, "handler returns a value"
            else:
                detail = "no single handler for CTParseTimeoutError"
        else:
            detail = "deadline checks outside the try: lines %s" % calls_outside
        ob("ctparse._ctparse", "timeout-just-ends-the-stream", ok_try and handler_ok, detail, "prefix")
        # results of the check are never used (non-interference => output under a timeout is a prefix)
        used = []
        for qual, nm in check_names.items():
            fn = world.func(qual)
            for x in ast.walk(fn.node):
                if isinstance(x, ast.Call) and isinstance(x.func, ast.Name) and x.func.id == nm:
                    par_ok = any(isinstance(p, ast.Expr) and p.value is x for p in ast.walk(fn.node))
                    if not par_ok:
                        used.append((qual, x.lineno))
        ob("ctparse._ctparse", "deadline-check-result-unused", not used, "result of the check used at %s" % used, "prefix")
        return obs, {"paths": len(obs), "assumptions": [
            "work = calls of PartialParse.from_regex_matches / apply_rule / scorer.score / scorer.score_final; N-sized collections of _ctparse: regex_stack, stack (sidecar annotation)",
            "the clock is monotone; sorting and the O(n^2) gap matrix are not 'work' in the property's sense"]}


def units(world):
    return timer_units(world) + [DeadlineUnit()]
