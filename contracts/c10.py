"""C10: the subject on the match path.  The token filter of `_ctparse` works on the matches of the C regex
engine over the whole initial stack -- the clause "drops every word inside a match the resolution was built
from, keeps the inert words in order" is checked by a bounded stand-in on the real ctparse() (never counted
as proved).  The deductive parts of C10 (labels, stripping, no-match pipeline) live in toplevel.py / extra.py."""


class BoundedSubjectUnit:
    kind = "bounded"
    name = "ctparse._ctparse.subject[bounded]"
    qualnames = ["ctparse._ctparse"]
    props = {"C10"}
    cost = 5

    def sha(self, world):
        return world.sha(world.func("ctparse._ctparse"))

    def run(self, world, prop, tier):
        import json
        import os
        import subprocess
        from pyvc.vcgen import Obligation
        from pyvc import world as W
        env = dict(os.environ, PYTHONPATH=world.repo + os.pathsep + W.VERIF, PYTHONDONTWRITEBYTECODE="1")
        p = subprocess.run([W.VENV_PY, "-W", "ignore", os.path.join(W.VERIF, "replay", "bounded_c10.py"), tier],
                           cwd=world.repo, env=env, capture_output=True, text=True, timeout=3000)
        o = Obligation(self.name, "subject-drops-the-words-of-the-used-matches-and-keeps-the-inert-words", ["C10"])
        o.kind = "bounded"
        o.bounded = True
        o.paths = 1
        info = {"paths": 1}
        try:
            r = json.loads(p.stdout.strip().splitlines()[-1])
        except Exception:
            o.status, o.detail = "unsupported", "bounded check crashed: " + (p.stderr or p.stdout)[-800:]
            return [o], info
        if not r["judged"]:
            o.status, o.detail = "unsupported", "bounded check judged no case (vacuous)"
            return [o], info
        info["bounded"] = [{"what": self.name, "bound": r["bound"], "cases": r["cases"], "distinct": r["judged"],
                            "failures": len(r["bad"]), "props": ["C10"]}]
        if r["bad"]:
            o.status = "failed"
            o.detail = "subject / labels differ from those of the inert text alone: %s" % json.dumps(r["bad"][0])[:500]
            o.cex = {"args": {"kind": "bounded", "examples": r["bad"]}}
            o.confirmed_natively = True
        return [o], info


def units(world):
    return [BoundedSubjectUnit()]
