"""C09: no pattern match may reach from the expression into a neighbouring inert word.

The lemma C09 rests on -- the pattern matches on `expression + inert words` are the matches on the
expression alone -- needs that no match starts before / ends after the blank that separates the
expression from an inert word.  Per pattern constant:
  * static part (decided): pyvc/regexguard.py walks the parse tree of the real pattern string and
    computes an over-approximation of the letter runs with which a match can end after / begin before
    a blank inside the match, unguarded by \\b, a look-around or an anchor.  A pattern without such a
    run cannot reach across the blank into a word: obligation `no-unguarded-run-across-a-blank`.
  * bounded part (labelled bounded, never counted as proved): for every run an inert word carrying
    it is built (inertness decided with the library's own patterns) and every pool expression on
    which the real pattern then matches across the boundary is parsed alone and next to the word by
    the real ctparse(): same resolution, same span text.  One obligation per (pattern, side, run), so
    that a known finding names exactly one run of one pattern.
"""
import json
import os
import subprocess

from pyvc.vcgen import Obligation
from pyvc import world as W
from pyvc import regexguard as G
from contracts.c19 import pattern_owner


class EdgeUnit:
    kind = "bounded"
    name = "rule.patterns.edges"
    qualnames = ["ctparse._match_regex"]
    props = {"C09"}
    cost = 7

    def sha(self, world):
        import hashlib
        return hashlib.sha256(repr(sorted(world.consts["regex_str"].items())).encode()).hexdigest()[:16]

    def run(self, world, prop, tier):
        owner = pattern_owner(world)
        obs, runs, info = [], [], {"paths": 0}
        by_pid = {}
        for pid in sorted(world.patterns):
            pm = world.patterns[pid]
            fname = "regex[%s]" % owner.get(pid, "P%d" % pid)
            o = Obligation(fname, "no-unguarded-run-across-a-blank", ["C09"])
            o.kind = "reglan"
            o.paths = 1
            o.queries = 1
            o.backend["trivial"] += 1
            try:
                rs = {(t, r) for t in (True, False) for r in G.edge_runs(pm.tree, t)}
            except G.Unknown as e:
                o.status, o.detail = "unsupported", "edge analysis: %s" % e
                obs.append(o)
                continue
            if rs:
                # not a failure of the property by itself: the runs are examined one by one below
                by_pid[pid] = (fname, sorted(rs))
                runs.extend({"pid": pid, "tail": t, "run": r} for t, r in sorted(rs))
            else:
                obs.append(o)
        info["paths"] = len(obs)
        env = dict(os.environ, PYTHONPATH=world.repo + os.pathsep + W.VERIF, PYTHONDONTWRITEBYTECODE="1")
        n = 24 if tier == "thorough" else 5
        p = subprocess.run([W.VENV_PY, "-W", "ignore", os.path.join(W.VERIF, "replay", "edge_bridge.py")],
                           input=json.dumps({"runs": runs, "n": n}), cwd=world.repo, env=env, capture_output=True, text=True, timeout=6000)
        try:
            r = json.loads(p.stdout.strip().splitlines()[-1])
        except Exception:
            o = Obligation(self.name, "adversarial-contexts-ran", ["C09"])
            o.kind, o.bounded, o.paths = "bounded", True, 1
            o.status, o.detail = "unsupported", "edge bridge crashed: " + (p.stderr or p.stdout)[-800:]
            return obs + [o], info
        bad = {}
        for b in r["bad"]:
            bad.setdefault(b["key"], []).append(b)
        for pid, (fname, rs) in by_pid.items():
            for t, run in rs:
                key = "%d:%s:%s" % (pid, "tail" if t else "head", run)
                o = Obligation(fname, "inert-neighbour-word-%s-%s" % ("beginning-with" if t else "ending-in", run), ["C09"])
                o.kind, o.bounded, o.paths = "bounded", True, 1
                if key in bad:
                    bs = bad[key]
                    o.status = "failed"
                    o.detail = json.dumps(bs[0], ensure_ascii=False)[:500]
                    o.cex = {"args": {"kind": "bridge", "examples": bs[:3]}}
                    o.confirmed_natively = True
                obs.append(o)
        info["bounded"] = [{"what": self.name, "bound": "%d unguarded edge runs of %d patterns x up to 2 inert words each x the expression pool of replay/edge_bridge.py (corpus step %s + %s) through the real ctparse(text, ts, timeout=0)"
                            % (len(runs), len(by_pid), "1" if n > 8 else "3", "hand-written endings"),
                            "cases": r["cases"], "distinct": r["cases"], "failures": r["n_bad"],
                            "runs_for_which_no_inert_word_exists": r["runs_without_inert_word"], "props": ["C09"]}]
        return obs, info


def units(world):
    return [EdgeUnit()]
