import ast
"""C19 (structure of the rule base) and the regular-language lemmas over the pattern constants
(also C09(3): no pattern language contains a word with a leading / trailing blank)."""
import ast
import time
import z3

from pyvc.vcgen import Obligation
from pyvc.regexmodel import WS_CHARS


def _ob(func, clause, props, ok, detail="", kind="data", cex=None, no_input=True):
    o = Obligation(func, clause, props)
    o.kind = kind
    o.paths = 1
    o.queries = 1
    o.backend["trivial"] += 1
    if not ok:
        o.status = "failed"
        o.detail = detail
        o.cex = cex
        o.no_input_expected = no_input
    return o


def pattern_owner(world):
    """stable name of each pattern id: the first rule (source order) and position using it"""
    owner = {}
    for name, ps in world.consts["registry"]:
        for i, (k, v) in enumerate(ps):
            if k == "regex" and v not in owner:
                owner[v] = "%s#%d" % (name, i)
    return owner


class RegistryUnit:
    kind = "data"
    name = "rule.registry"
    qualnames = ["rule.rule", "rule.regex_match", "rule.predicate", "rule.dimension", "loader.load_default_scorer"]
    props = {"C19", "C11"}
    cost = 1

    def sha(self, world):
        return world.sha(world.func("rule.rule"))

    def run(self, world, prop, tier):
        obs = []
        c = world.consts
        defs = world.rule_defs()
        names = [n.name for n, d in defs]
        dup = sorted({n for n in names if names.count(n) > 1})
        reg_names = [n for n, ps in c["registry"]]
        obs.append(_ob("rules.<module>", "unique-rule-names", ["C19"], not dup,
                       "function name(s) defined more than once with @rule: %s (the later definition silently replaces the earlier)" % dup,
                       cex={"args": None, "duplicates": dup}))
        obs.append(_ob("rules.<module>", "every-definition-registered", ["C19"],
                       set(names) == set(reg_names) and len(names) == len(reg_names),
                       "%d @rule definitions in the source, %d entries in the registry; missing %s" % (
                           len(names), len(reg_names), sorted(set(names) ^ set(reg_names)))))
        # representation invariant of the id maps, on the real registry
        rs = {int(k): v for k, v in c["regex_str"].items()}
        sr = c["str_regex"]
        keys = sorted(rs)
        inv = (all(sr.get(v) == k for k, v in rs.items()) and all(rs.get(v) == k for k, v in sr.items())
               and keys == list(range(100, c["regex_cnt"])) and sorted(c["regex_keys"]) == keys)
        obs.append(_ob("rule.rule._map", "id-maps-inverse-and-contiguous", ["C19"], inv,
                       "_str_regex/_regex_str/_regex are not mutually inverse maps over 100.._regex_cnt-1"))
        # ids are a function of the source: allocation order = first-occurrence order of pattern text
        from contracts import rules as R
        try:
            tasks = R.discover(world, strict=False)
            order = []
            for t in tasks:
                for s in t.argspecs:
                    if s.kind == "regex" and s.pid not in order:
                        order.append(s.pid)
            ok = order == sorted(order) and order == keys
        except Exception as e:
            ok = False
            order = str(e)
        obs.append(_ob("rule.rule._map", "ids-in-first-occurrence-order", ["C19"], ok,
                       "pattern ids are not allocated in source order: %s" % (order,)))
        # no rule has two adjacent string patterns (call-site precondition of rule())
        bad = []
        for n, ps in c["registry"]:
            for a, b in zip(ps, ps[1:]):
                if a[0] == "regex" and b[0] == "regex":
                    bad.append(n)
        obs.append(_ob("rule.rule", "no-adjacent-patterns", ["C19"], not bad, "rules with two adjacent regex patterns: %s" % bad))
        # every compiled regex is the (?i) wrapped pattern text (C11: case-insensitive)
        badsrc = []
        defs_ = world.modules["ctparse.rule"].globals.get("_defines")
        for k, v in rs.items():
            want = "{defines}(?i)(?P<R{re_key}>{re})".format(defines=defs_, re=v, re_key=k)
            if c["regex_src"][str(k)] != want or not (c["regex_flags"][str(k)] & c["regex_VERSION1"]):
                badsrc.append(k)
        obs.append(_ob("rule.rule._map", "compiled-case-insensitively", ["C19", "C11"], not badsrc,
                       "compiled source of patterns %s is not defines+(?i)+(?P<Rid>pattern) / VERSION1" % badsrc))
        # the shipped model speaks the rule base's language
        voc = c.get("vocab_unigrams")
        if voc is None:
            obs.append(_ob("loader.load_default_scorer", "model-vocabulary-known", ["C19"], False,
                           "default scorer has no vocabulary: %s" % c.get("default_scorer")))
        else:
            known = set(str(k) for k in keys) | set(reg_names)
            unk = [t for t in voc if t not in known]
            obs.append(_ob("loader.load_default_scorer", "model-vocabulary-known", ["C19"], not unk,
                           "vocabulary tokens naming no pattern id or rule: %s" % unk[:10]))
        return obs, {"paths": len(obs)}


class RegLanUnit:
    """lemmas about the languages of the pattern constants"""
    kind = "reglan"
    name = "rule.patterns.reglan"
    props = {"C19", "C09", "C02"}
    cost = 3

    def sha(self, world):
        import hashlib
        return hashlib.sha256(repr(sorted(world.consts["regex_str"].items())).encode()).hexdigest()[:16]

    def run(self, world, prop, tier):
        owner = pattern_owner(world)
        obs = []
        S = z3.StringSort()
        ws = z3.Union(*[z3.Re(z3.StringVal(ch)) for ch in WS_CHARS])
        full = z3.Full(z3.ReSort(S))
        w = z3.String("w")
        for pid in sorted(world.patterns):
            pm = world.patterns[pid]
            L = pm.reglan()
            fname = "regex[%s]" % owner.get(pid, "P%d" % pid)
            for clause, props, bad in (
                    ("not-nullable", ["C19", "C02"], z3.Re(z3.StringVal(""))),
                    ("no-leading-blank", ["C09"], z3.Concat(ws, full))):
                if prop not in props:
                    continue
                o = Obligation(fname, clause, props)
                o.kind = "reglan"
                o.paths = 1
                t0 = time.time()
                s = z3.Solver()
                s.set("timeout", 20000)
                s.add(z3.InRe(w, L), z3.InRe(w, bad))
                r = s.check()
                o.queries, o.solver_s = 1, time.time() - t0
                o.backend["z3"] += 1
                if r == z3.sat:
                    wit = s.model().eval(w, model_completion=True).as_string()
                    o.status = "failed"
                    o.detail = "witness %r in L(pattern %d)" % (wit, pid)
                    o.cex = {"args": {"pid": pid, "word": wit, "pattern": pm.text}}
                elif r != z3.unsat:
                    o.status = "undecided"
                    o.detail = "solver unknown"
                obs.append(o)
        return obs, {"paths": len(obs), "assumptions": [
            "RegLan lemmas drop look-arounds and \\b (the language is enlarged: sound for 'no word of L(p) ...' claims)"]}


class VocabUnit:
    """every surface form of the specification grammar is matched entirely by the pattern of the
    intended rule and sets the intended groups: exhaustive over the finite vocabulary of
    spec/vocab.py, decided with the real regex engine"""
    kind = "vocab"
    name = "rule.patterns.vocabulary"
    props = {"C03", "C04", "C05", "C06", "C07", "C08", "C20"}
    cost = 2

    def sha(self, world):
        import hashlib
        return hashlib.sha256(repr(sorted(world.consts["regex_str"].items())).encode()).hexdigest()[:16]

    def run(self, world, prop, tier):
        import json
        import os
        import subprocess
        from pyvc import world as W
        env = dict(os.environ, PYTHONPATH=world.repo + os.pathsep + W.VERIF, PYTHONDONTWRITEBYTECODE="1")
        p = subprocess.run([W.VENV_PY, "-W", "ignore", os.path.join(W.VERIF, "replay", "vocab_check.py")],
                           cwd=world.repo, env=env, capture_output=True, text=True, timeout=600)
        obs = []
        try:
            res = json.loads(p.stdout.strip().splitlines()[-1])
        except Exception:
            o = _ob("vocabulary", "check-ran", sorted(self.props), False, "vocabulary check crashed: " + (p.stderr or p.stdout)[-600:])
            o.status = "unsupported"
            return [o], {"paths": 1}
        n = 0
        for fam, st in sorted(res.items()):
            props = [x for x in fam.split(" ")[0].split("/")]
            n += st["n"]
            o = _ob("vocabulary[%s]" % fam.split(" ", 1)[1], "words-matched-entirely-with-intended-groups", props, not st["bad"],
                    "%d of %d words fail, e.g. %s" % (len(st["bad"]), st["n"], json.dumps(st["bad"][:2], ensure_ascii=False)),
                    kind="vocab", cex={"args": {"kind": "vocab", "examples": st["bad"][:5]}})
            o.confirmed_natively = bool(st["bad"])
            o.paths = st["n"]
            if not st["bad"] and st.get("undecided"):
                o.status = "unsupported"
                o.detail = "%d words: %s" % (len(st["undecided"]), json.dumps(st["undecided"][0], ensure_ascii=False))
            obs.append(o)
        return obs, {"paths": n, "assumptions": ["vocabulary lemmas are finite: every listed word is checked with the real regex engine (fullmatch)"]}


def units(world):
    return [RegistryUnit(), RegLanUnit(), VocabUnit()]


# ---------------------------------------------------------------------------------------------
# rule() / _map / fwrapper executed on a scratch copy of the registry state (code-level contract)
def decorator_units(world):
    import z3
    from pyvc.values import UTerm, Tok, FuncVal, Obj, PyRaise, Builtin, Unsupported
    from contracts.extra import FuncUnit

    def with_state(w, fn):
        rm = w.modules["ctparse.rule"]
        keys = ("_regex_cnt", "_regex", "_regex_str", "_str_regex", "rules")
        saved = {k: rm.globals.get(k) for k in keys}
        rm.globals.update({"_regex_cnt": 101, "_regex": {100: Tok("compiled100")}, "_regex_str": {100: "old pattern"},
                           "_str_regex": {"old pattern": 100}, "rules": {}})
        try:
            return fn(rm)
        finally:
            state = {k: rm.globals.get(k) for k in keys}
            rm.globals.update(saved)
            fn.state = state

    def mk(case):
        def setup(it, w):
            return [case, {}]

        def call(it, w, a):
            seen = a[1]

            def body(rm):
                rule_f = rm.globals["rule"]
                pred = it.call(rm.globals["predicate"], ["isDOM"], {})
                if case == "new":
                    pats = [UTerm("input", ["p"], "str"), pred]
                elif case == "seen":
                    pats = ["old pattern", pred]
                elif case == "adjacent":
                    pats = [UTerm("input", ["p"], "str"), "old pattern"]
                else:
                    pats = [pred]
                seen["pats"] = pats
                try:
                    deco = it.call(rule_f, pats, {})
                except PyRaise as e:
                    seen["raised"] = e.cls
                    return None
                f = FuncVal(ast.parse("def ruleNew(ts, a, b=None): return None").body[0], rm, None, qualname="rules.ruleNew")
                seen["f"] = f
                return it.call(deco, [f], {})
            r = with_state(w, body)
            seen["state"] = body.state
            return r

        def ens(it, w, a, r):
            seen = a[1]
            st = seen.get("state", {})
            out = []
            if case == "adjacent":
                return [("two-adjacent-patterns-are-rejected", ["C19"], seen.get("raised") == "ValueError")]
            if seen.get("raised"):
                # only a pattern that can match the empty string may be rejected
                cond = [c for c in it.pc if "truthy!" in str(c)]
                return [("rejected-only-for-an-empty-match", ["C19"], case == "new" and seen["raised"] == "ValueError" and bool(cond))]
            reg = st.get("rules", {})
            out.append(("registered-under-the-function-name", ["C19"],
                        isinstance(reg, dict) and list(reg) == ["ruleNew"] and isinstance(r, FuncVal) and reg["ruleNew"][0] is r))
            if case == "new":
                # either the text equals the known pattern (id shared) or a fresh id is allocated
                shared = st.get("_regex_cnt") == 101
                out.append(("identical-text-shares-the-id-else-next-free-id", ["C19"],
                            (shared and st["_str_regex"] == {"old pattern": 100}) or
                            (st.get("_regex_cnt") == 102 and st["_regex_str"].get(101) is seen["pats"][0]
                             and list(st["_regex"]) == [100, 101] and len(st["_str_regex"]) == 2)))
                if not shared:
                    comp = st["_regex"][101]
                    src = comp.args[0] if isinstance(comp, UTerm) and comp.args else None
                    parts = list(src.args) if isinstance(src, UTerm) and src.fn == "concat" else []
                    lit = "".join(x for x in parts if isinstance(x, str))
                    out.append(("compiled-as-defines-plus-case-insensitive-named-group", ["C19", "C11"],
                                isinstance(comp, UTerm) and comp.fn == "regex.compile" and len(comp.args) == 2
                                and getattr(comp.args[1], "name", None) == "regex.VERSION1"      # exactly this flag: no ASCII / LOCALE folding
                                and "(?i)(?P<R101>" in lit and lit.endswith(")")
                                and any(x is seen["pats"][0] for x in parts) and lit.startswith("(?(DEFINE)")))
            elif case == "seen":
                out.append(("known-pattern-is-recycled-without-allocation", ["C19"],
                            st.get("_regex_cnt") == 101 and st["_str_regex"] == {"old pattern": 100} and list(st["_regex"]) == [100]))
            else:
                out.append(("no-pattern-no-allocation", ["C19"], st.get("_regex_cnt") == 101))
            preds = reg.get("ruleNew", (None, []))[1] if isinstance(reg, dict) else []
            out.append(("one-predicate-per-pattern-element", ["C19", "C15"], len(preds) == len(seen["pats"])
                        and all(isinstance(x, FuncVal) for x in preds)))
            return out
        return FuncUnit("rule.rule[%s]" % case, ["rule.rule"], ["C19", "C11", "C15"], setup, call, ens, check_frame=False,
                        prop_map={"safety": ["C19"]}, allow_raises=())
    return [mk(c) for c in ("new", "seen", "adjacent", "nopattern")]


_units_c19 = units


def units(world):  # noqa: F811
    return _units_c19(world) + decorator_units(world)
