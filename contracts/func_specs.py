"""Contracts of the non-rule functions (post-processing, accessors, rule wrapper, ...).
z3-free: evaluated symbolically by the verifier and natively by the replay harness."""
from pyvc.logic import And, Or, Not, If, Eq, Implies, Iff
from spec import calendar as cal
from spec import wf as WF
from spec.views import (fld, has, v, val, isnone, kind, only, same_field, field_is, field_none,
                        same_time_value, opt_obj)
from contracts.generic import wf_value
from contracts.rule_specs import date_of, ord_of, ts_ord, same_opt_time


def span_eq(a, b):
    return And(Eq(v(a, "mstart"), v(b, "mstart")), Eq(v(a, "mend"), v(b, "mend")))


def _tod(t):
    return Or(only(t, "hour"), only(t, "hour", "minute"))


def _clock_minutes(t):
    return v(t, "hour") * 60 + If(has(t, "minute"), v(t, "minute"), 0)


def _abs_minutes(t):
    return ord_of(t) * 1440 + v(t, "hour") * 60 + v(t, "minute")


def _anchored(r):
    return And(only(r, "year", "month", "day", "hour", "minute"), cal.valid_date(*date_of(r)))


def postprocess_clauses(env, ts, art, res):
    """apply_postprocessing_rules(ts, art): latent-time anchoring (C06, C07) keeps well-formedness
    (C02) and the character span (C02, C09)"""
    pt = env.pod_table
    out = [("wf-result", ["C02", "C01"], wf_value(pt, res)),
           ("span-preserved", ["C02", "C09"], And(kind(res) == kind(art), span_eq(res, art)))]
    tsm = ts_ord(ts) * 1440 + ts.hour * 60 + ts.minute
    k = kind(art)
    same_obj = (res is art) or (getattr(res, "ref", 0) is getattr(art, "ref", 1))
    if k == "Time":
        tod = _tod(art)
        if kind(res) == "Time":
            anchored = And(_anchored(res), Eq(v(res, "hour") * 60 + v(res, "minute"), _clock_minutes(art)),
                           _abs_minutes(res) > tsm, _abs_minutes(res) <= tsm + 1440)
        else:
            anchored = False
        out.append(("bare-clock-first-occurrence-after-ts", ["C06"], If(tod, anchored, same_obj)))
    elif k == "Interval":
        fn, f = opt_obj(fld(art, "t_from"))
        tn, t = opt_obj(fld(art, "t_to"))
        ti = And(Not(fn), Not(tn), _tod(f), _tod(t))
        ok = kind(res) == "Interval"
        rfn, rf = opt_obj(fld(res, "t_from")) if ok else (True, None)
        rtn, rt = opt_obj(fld(res, "t_to")) if ok else (True, None)
        if rf is not None and rt is not None:
            anchored = And(Not(rfn), Not(rtn), _anchored(rf), _anchored(rt),
                           Eq(v(rf, "hour") * 60 + v(rf, "minute"), _clock_minutes(f)),
                           Eq(v(rt, "hour") * 60 + v(rt, "minute"), _clock_minutes(t)),
                           _abs_minutes(rf) > tsm, _abs_minutes(rf) <= tsm + 1440)
            ordered = And(_abs_minutes(rf) < _abs_minutes(rt), _abs_minutes(rt) <= _abs_minutes(rf) + 1440)
        else:
            anchored = ordered = False
        out.append(("clock-range-anchored-after-ts", ["C07", "C06"], If(ti, anchored, same_obj)))
        out.append(("clock-range-ordered-within-24h", ["C07", "C02"], Implies(ti, ordered)))
    else:
        out.append(("unchanged", ["C02"], same_obj))
    return out


def _acc(t, res, hm):
    h, m = hm
    return And(kind(res) == "Time", same_field(res, t, "year"), same_field(res, t, "month"), same_field(res, t, "day"),
               field_is(res, "hour", h), field_is(res, "minute", m), field_none(res, "DOW"), field_none(res, "POD"))


def time_start_clauses(env, t, res):
    return [("start-accessor", ["C02", "C01"], _acc(t, res, WF.start_hm(t, env.pod_table))),
            ("wf-result", ["C02"], wf_value(env.pod_table, res))]


def time_end_clauses(env, t, res):
    return [("end-accessor", ["C02", "C01"], _acc(t, res, WF.end_hm(t, env.pod_table))),
            ("wf-result", ["C02"], wf_value(env.pod_table, res))]


def time_dt_clauses(env, t, res):
    h, m = WF.start_hm(t, env.pod_table)
    return [("dt-accessor", ["C02", "C01"],
             And(Eq(res.year, v(t, "year")), Eq(res.month, v(t, "month")), Eq(res.day, v(t, "day")),
                 Eq(res.hour, h), Eq(res.minute, m), Eq(res.second, 0), Eq(res.microsecond, 0)))]


def interval_start_clauses(env, i, res):
    fn, f = opt_obj(fld(i, "t_from"))
    if res is None:
        return [("start-accessor", ["C02", "C01"], fn)]
    return [("start-accessor", ["C02", "C01"], And(Not(fn), _acc(f, res, WF.start_hm(f, env.pod_table))))]


def interval_end_clauses(env, i, res):
    tn, t = opt_obj(fld(i, "t_to"))
    if res is None:
        return [("end-accessor", ["C02", "C01"], tn)]
    return [("end-accessor", ["C02", "C01"], And(Not(tn), _acc(t, res, WF.end_hm(t, env.pod_table))))]


def wrapper_clauses(env, ts, args, fres, res):
    """rule wrapper: res = f(ts, *args) with the span widened to that of all args"""
    if fres is None:
        return [("none-iff-production-none", ["C01", "C15"], res is None)]
    ok = res is not None and kind(res) == kind(fres)
    return [("none-iff-production-none", ["C01", "C15"], res is not None),
            ("span-covers-arguments", ["C02", "C09", "C15"],
             And(ok, Eq(v(res, "mstart"), v(args[0], "mstart")), Eq(v(res, "mend"), v(args[-1], "mend")),
                 v(res, "mstart") >= 0, v(res, "mstart") < v(res, "mend")) if ok else False),
            ("value-unchanged", ["C15", "C02"], same_time_value(res, fres) if ok else False)]


# ------------------------------------------------------------------ C18 value semantics
def same_value(a, b):
    """a and b are of the same kind and denote the same value (C18's definition; spans excluded)"""
    ka, kb = kind(a), kind(b)
    if ka != kb:
        return False
    if ka == "Time":
        return same_time_value(a, b)
    if ka == "Interval":
        return And(same_opt_time(fld(a, "t_from"), fld(b, "t_from")), same_opt_time(fld(a, "t_to"), fld(b, "t_to")))
    if ka == "Duration":
        return And(Eq(v(a, "value"), v(b, "value")), unit_same(fld(a, "unit"), fld(b, "unit")))
    return False


def unit_same(u1, u2):
    if hasattr(u1, "idx") and hasattr(u2, "idx"):
        return Eq(u1.idx, u2.idx)
    if hasattr(u1, "idx") or hasattr(u2, "idx"):
        s, o = (u1, u2) if hasattr(u1, "idx") else (u2, u1)
        return Or(*[Eq(s.idx, i) for i, m in enumerate(s.members) if m.name == o.name])
    return u1.name == u2.name


def eq_clauses(env, a, b, eq_result, hash_same):
    sv = same_value(a, b)
    # C14 / C15: the two dedup tables of the search (dict keys: values, tuples of values) are only as good as
    # the agreement of __eq__ and __hash__
    return [("eq-iff-same-kind-and-value", ["C18", "C17", "C14", "C15"], Iff(eq_result, sv)),
            ("equal-values-hash-equal", ["C18", "C14", "C15"], Implies(sv, hash_same))]


def roundtrip_clauses(env, x, r, eq_result, shape_ok=None):
    out = [("parse-of-text-form-is-equal", ["C18", "C17"], And(same_value(r, x), eq_result))]
    if shape_ok is not None:
        # what the Interval round trip assumes about the text form of a Time (modular use)
        out.append(("text-form-shape", ["C18"], shape_ok))
    return out
