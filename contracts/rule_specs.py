"""Rule-specific postconditions (DESIGN appendix A), written from the property
statements over the calendar spec -- not from the code.  Pure spec module: no
z3 import, so the replay harness evaluates the same clauses natively.

A spec is  fn(env, ts, *args, res) -> [(clause name, [property ids], formula)].
`env.pod_table` is the real part-of-day table, `env.ghost` ghost state of the path.
"""
from pyvc.logic import And, Or, Not, If, Eq, Implies, Iff, Mod, Div, ForAllInts, InSet
from spec import calendar as cal
from spec import wf as WF
from spec.views import (fld, has, v, val, isnone, kind, only, atleast, same_field, field_is, field_none,
                        same_time_value, opt_obj, str_where, str_lookup_int, g_present, g_truthy, g_int,
                        g_len, g_has_letter, group_names, TIME_FIELDS)

# vocabulary of the specification (independent of the code's tables)
DOWS = ["mon", "tue", "wed", "thu", "fri", "sat", "sun"]                    # Monday = 0
MONTHS = ["january", "february", "march", "april", "may", "june", "july", "august", "september",
          "october", "november", "december"]
UNITS = ["minutes", "hours", "days", "nights", "weeks", "months"]
PM_PODS = ("afternoon", "evening", "night", "last")
AM_PODS = ("forenoon", "morning", "first")

SPECS = {}


def spec(*names):
    def deco(fn):
        for n in names:
            SPECS[n] = fn
        return fn
    return deco


# ------------------------------------------------------------------ helpers
def date_of(t):
    return (v(t, "year"), v(t, "month"), v(t, "day"))


def ord_of(t):
    return cal.ordinal(*date_of(t))


def ts_ord(ts):
    return cal.ordinal(ts.year, ts.month, ts.day)


def is_date(res):
    return And(kind(res) == "Time", only(res, "year", "month", "day"),
               cal.valid_date(*date_of(res))) if kind(res) == "Time" else False


def date_is(res, y, m, d):
    return And(Eq(v(res, "year"), y), Eq(v(res, "month"), m), Eq(v(res, "day"), d))


def unit_is(u, name):
    """Duration unit equals the DurationUnit whose value is `name`"""
    if hasattr(u, "members") and hasattr(u, "idx"):          # SEnum
        return Or(*[Eq(u.idx, i) for i, m in enumerate(u.members) if m.value == name])
    if hasattr(u, "value") and hasattr(u, "name"):           # EnumMember / real enum
        return u.value == name
    return False


def pod_class(p, words):
    return str_where(p, lambda s: any(w in s for w in words))


def start_minutes(t, pod_table):
    h, m = WF.start_hm(t, pod_table)
    return ord_of(t) * 1440 + h * 60 + m


def same_opt_time(x, y):
    """two Optional[Time] attribute values denote the same value"""
    xn, xo = opt_obj(x)
    yn, yo = opt_obj(y)
    if xo is None or yo is None:
        return And(xn, yn)
    return Or(And(xn, yn), And(Not(xn), Not(yn), same_time_value(xo, yo)))


def clock(h, mi, ampm_present, is_am, is_pm):
    """hour denoted by a written hour h with an optional am/pm suffix (C06): 12 am is midnight,
    12 pm is noon; a suffix on 0 or 13..23 is not a 12-hour notation and is ignored"""
    return If(Not(ampm_present), h,
              If(And(is_am, Eq(h, 12)), 0,
                 If(And(is_pm, h >= 1, h < 12), h + 12, h)))


# ------------------------------------------------------------------ C03 relative days
@spec("ruleToday")
def _today(env, ts, m, res):
    return [("today", ["C03"], And(is_date(res), date_is(res, ts.year, ts.month, ts.day)))]


@spec("ruleNow")
def _now(env, ts, m, res):
    return [("now", ["C03"], And(kind(res) == "Time", only(res, "year", "month", "day", "hour", "minute"),
                                 date_is(res, ts.year, ts.month, ts.day),
                                 Eq(v(res, "hour"), ts.hour), Eq(v(res, "minute"), ts.minute)))]


def _rel(k):
    def f(env, ts, m, res):
        return [("ordinal%+d" % k, ["C03"], And(is_date(res), Eq(ord_of(res), ts_ord(ts) + k)))]
    return f


SPECS["ruleTomorrow"] = _rel(1)
SPECS["ruleAfterTomorrow"] = _rel(2)
SPECS["ruleYesterday"] = _rel(-1)
SPECS["ruleBeforeYesterday"] = _rel(-2)


@spec("ruleEOM")
def _eom(env, ts, m, res):
    return [("end-of-month", ["C03"], And(is_date(res), date_is(res, ts.year, ts.month, cal.dim(ts.year, ts.month))))]


@spec("ruleEOY")
def _eoy(env, ts, m, res):
    return [("end-of-year", ["C03"], And(is_date(res), date_is(res, ts.year, 12, 31)))]


def _dow_window(lo, hi, props):
    def f(ts, dow, res):
        d = ord_of(res) - ts_ord(ts)
        return And(is_date(res), Eq(cal.weekday(ord_of(res)), v(dow, "DOW")), d >= lo, d <= hi)
    return f


@spec("ruleAtDOW")
def _atdow(env, ts, m, dow, res):
    # C20: "on friday 5pm" goes through this rule, "on friday" alone through the connecting-word rule and
    # ruleLatentDOW; both contracts name the same day, so adding a clock cannot move it
    return [("this-weekday", ["C03", "C20"], _dow_window(1, 7, None)(ts, dow, res))]


@spec("ruleNextDOW")
def _nextdow(env, ts, m, dow, res):
    return [("next-weekday", ["C03"], _dow_window(7, 13, None)(ts, dow, res))]


@spec("ruleDOWNextWeek")
def _downext(env, ts, dow, m, res):
    return [("weekday-next-week", ["C03"], _dow_window(7, 13, None)(ts, dow, res))]


@spec("ruleLatentDOW")
def _latentdow(env, ts, dow, res):
    return [("bare-weekday", ["C03", "C04", "C20"], _dow_window(1, 7, None)(ts, dow, res))]


@spec("ruleNamedDOW")
def _nameddow(env, ts, m, res):
    names = group_names(m)
    align = And(*[Implies(g_present(m, n), field_is(res, "DOW", k)) for k, n in enumerate(DOWS) if n in names]) \
        if kind(res) == "Time" else False
    return [("weekday-name", ["C03", "C04"],
             And(kind(res) == "Time", only(res, "DOW") if kind(res) == "Time" else False, align,
                 all(n in names for n in DOWS)))]


# ------------------------------------------------------------------ C04 partial dates
@spec("ruleLatentDOM")
def _latentdom(env, ts, dom, res):
    day = v(dom, "day")
    o, o0 = ord_of(res), ts_ord(ts)
    nearest = ForAllInts([("y", ts.year, v(res, "year")), ("m", 1, 12)],
                         lambda y, m: Not(And(cal.valid_date(y, m, day), cal.ordinal(y, m, day) > o0,
                                              cal.ordinal(y, m, day) < o)))
    return [("day-preserved", ["C04"], And(is_date(res), Eq(v(res, "day"), day))),
            ("strictly-future", ["C04"], o > o0),
            ("nearest", ["C04"], nearest)]


@spec("ruleLatentDOY")
def _latentdoy(env, ts, doy, res):
    mo, day = v(doy, "month"), v(doy, "day")
    o, o0 = ord_of(res), ts_ord(ts)
    nearest = ForAllInts([("y", ts.year, v(res, "year"))],
                         lambda y: Not(And(cal.valid_date(y, mo, day), cal.ordinal(y, mo, day) >= o0,
                                           cal.ordinal(y, mo, day) < o)))
    return [("month-day-preserved", ["C04"], And(is_date(res), Eq(v(res, "month"), mo), Eq(v(res, "day"), day))),
            ("not-past", ["C04"], o >= o0),
            ("nearest", ["C04"], nearest)]


@spec("ruleLatentPOD")
def _latentpod(env, ts, pod, res):
    p = val(fld(pod, "POD"))
    h = str_lookup_int(p, env.pod_table, lambda e: e[0])
    today = h * 60 > ts.hour * 60 + ts.minute          # its start hour is still ahead (minute granularity)
    return [("pod-preserved", ["C04"], And(kind(res) == "Time", only(res, "year", "month", "day", "POD"),
                                           same_field(res, pod, "POD"), cal.valid_date(*date_of(res)))),
            ("first-start-after-ts", ["C04"], Eq(ord_of(res), If(today, ts_ord(ts), ts_ord(ts) + 1)))]


@spec("ruleDOWDOM")
def _dowdom(env, ts, dow, dom, res):
    day = v(dom, "day")
    o, o0 = ord_of(res), ts_ord(ts)
    inst = env.ghost.get("rrule_min")

    def body(y, m):
        c = Not(And(cal.valid_date(y, m, day), Eq(cal.weekday(cal.ordinal(y, m, day)), v(dow, "DOW")),
                    cal.ordinal(y, m, day) >= o0, cal.ordinal(y, m, day) < o))
        if inst is not None:
            # trusted rrule contract (first match), instantiated at the quantified date
            return Implies(inst(y, m), c)
        return c
    nearest = ForAllInts([("y", ts.year, v(res, "year")), ("m", 1, 12)], body)
    return [("weekday-and-day", ["C04"], And(is_date(res), Eq(v(res, "day"), day),
                                              Eq(cal.weekday(o), v(dow, "DOW")))),
            ("not-past", ["C04"], o >= o0),
            ("nearest", ["C04"], nearest)]


# ------------------------------------------------------------------ C05 absolute dates
def _dom(env, ts, m, res):
    return [("day-as-written", ["C05", "C04"], And(kind(res) == "Time", only(res, "day") if kind(res) == "Time" else False,
                                                    field_is(res, "day", g_int(m, "day")) if kind(res) == "Time" else False))]


SPECS["ruleDOM1"] = _dom
SPECS["ruleDOM2"] = _dom


@spec("ruleMonthOrdinal")
def _monthord(env, ts, m, res):
    return [("month-as-written", ["C05"], And(kind(res) == "Time", only(res, "month"),
                                              field_is(res, "month", g_int(m, "month"))))]


@spec("ruleNamedMonth")
def _namedmonth(env, ts, m, res):
    names = group_names(m)
    ok = kind(res) == "Time"
    return [("month-name", ["C05"], And(ok, only(res, "month") if ok else False,
                                        And(*[Implies(g_present(m, n), field_is(res, "month", k + 1))
                                              for k, n in enumerate(MONTHS) if n in names]) if ok else False,
                                        all(n in names for n in MONTHS)))]


@spec("ruleYear")
def _year(env, ts, m, res):
    """four digits: that year.  Two digits: the documented window of the code comment ("any two
    digit year between 0 and yy+10 is interpreted to be within the century of the reference year,
    anything above maps to the previous century")"""
    y = g_int(m, "year")
    ry = v(res, "year")
    cc, yy = Div(ts.year, 100), Mod(ts.year, 100)
    return [("year-as-written", ["C05"], And(kind(res) == "Time", only(res, "year"),
                                             If(y >= 100, Eq(ry, y),
                                                Eq(ry, If(y < yy + 10, cc * 100 + y, (cc - 1) * 100 + y)))))]


POD_NAMES = ["first", "last", "earlymorning", "lateevening", "morning", "forenoon", "afternoon", "noon", "evening", "night"]


@spec("rulePOD")
def _pod(env, ts, m, res):
    names = group_names(m)
    ok = kind(res) == "Time"
    return [("part-of-day-name", ["C04", "C06", "C19"],
             And(ok, only(res, "POD") if ok else False,
                 And(*[Implies(g_truthy(m, n), field_is(res, "POD", n)) for n in POD_NAMES if n in names]) if ok else False,
                 all(n in names for n in POD_NAMES)))]


def _month_day(mo, day, res):
    bad = day > cal.dim_max(mo)
    if res is None:
        return [("none-iff-no-such-day", ["C05", "C02"], bad)]
    return [("none-iff-no-such-day", ["C05", "C02"], Not(bad)),
            ("month-day-as-written", ["C05", "C04"], And(kind(res) == "Time", only(res, "month", "day"),
                                                          field_is(res, "month", mo), field_is(res, "day", day)))]


@spec("ruleDOMMonth")
def _dommonth(env, ts, dom, m, res):
    return _month_day(v(m, "month"), v(dom, "day"), res)


@spec("ruleDOMMonth2")
def _dommonth2(env, ts, dom, _, m, res):
    return _month_day(v(m, "month"), v(dom, "day"), res)


@spec("ruleMonthDOM")
def _monthdom(env, ts, m, dom, res):
    return _month_day(v(m, "month"), v(dom, "day"), res)


def _written_month(m):
    """month denoted by a numeric or named month group"""
    names = group_names(m)
    t = g_int(m, "month")
    for k, n in enumerate(MONTHS):
        if n in names:
            t = If(g_present(m, n), k + 1, t)
    return t


@spec("ruleDDMM", "ruleMMDD")
def _ddmm(env, ts, m, res):
    return _month_day(_written_month(m), g_int(m, "day"), res)


@spec("ruleDOYYear")
def _doyyear(env, ts, doy, y, res):
    yy, mo, d = v(y, "year"), v(doy, "month"), v(doy, "day")
    ok = cal.valid_date(yy, mo, d)
    if res is None:
        return [("none-iff-invalid", ["C05", "C02"], Not(ok))]
    return [("none-iff-invalid", ["C05", "C02"], ok),
            ("date-as-written", ["C05"], And(is_date(res), date_is(res, yy, mo, d)))]


@spec("ruleDDMMYYYY")
def _ddmmyyyy(env, ts, m, res):
    y = g_int(m, "year")
    yy = If(y < 100, 2000 + y, y)
    mo, d = _written_month(m), g_int(m, "day")
    ok = cal.valid_date(yy, mo, d)
    if res is None:
        return [("none-iff-invalid", ["C05", "C02"], Not(ok))]
    return [("none-iff-invalid", ["C05", "C02"], ok),
            ("date-as-written", ["C05"], And(is_date(res), date_is(res, yy, mo, d)))]


def _dowdate(dow, date, res):
    return [("date-kept", ["C05"], And(kind(res) == "Time", same_field(res, date, "year"), same_field(res, date, "month"),
                                       same_field(res, date, "day"), same_field(res, dow, "POD"),
                                       field_none(res, "hour"), field_none(res, "minute"), field_none(res, "DOW")))]


@spec("ruleDOWDate")
def _dowdate1(env, ts, dow, date, res):
    return _dowdate(dow, date, res)


@spec("ruleDateDOW")
def _dowdate2(env, ts, date, dow, res):
    return _dowdate(dow, date, res)


def _datetod(date, tod, res):
    return [("date-and-clock-kept", ["C20", "C05"],
             And(kind(res) == "Time", same_field(res, date, "year"), same_field(res, date, "month"),
                 same_field(res, date, "day"), same_field(res, tod, "hour"), same_field(res, tod, "minute"),
                 field_none(res, "DOW"), field_none(res, "POD"), has(res, "hour")))]


@spec("ruleDateTOD")
def _datetod1(env, ts, date, tod, res):
    return _datetod(date, tod, res)


@spec("ruleTODDate")
def _datetod2(env, ts, tod, date, res):
    return _datetod(date, tod, res)


def _datepod(d, pod, res):
    return [("date-and-pod-kept", ["C20"],
             And(kind(res) == "Time", same_field(res, d, "year"), same_field(res, d, "month"), same_field(res, d, "day"),
                 same_field(res, pod, "POD"), field_none(res, "hour"), field_none(res, "minute"),
                 field_none(res, "DOW")))]


@spec("ruleDatePOD")
def _datepod1(env, ts, d, pod, res):
    return _datepod(d, pod, res)


@spec("rulePODDate")
def _datepod2(env, ts, pod, d, res):
    return _datepod(d, pod, res)


@spec("ruleAbsorbOnTime")
def _absorb(env, ts, m, t, res):
    return [("value-unchanged", ["C20"], And(kind(res) == "Time", same_time_value(res, t) if kind(res) == "Time" else False))]


@spec("ruleAbsorbFromInterval")
def _absorbi(env, ts, m, i, res):
    ok = kind(res) == "Interval"
    return [("value-unchanged", ["C07"], And(ok, same_opt_time(fld(res, "t_from"), fld(i, "t_from")) if ok else False,
                                             same_opt_time(fld(res, "t_to"), fld(i, "t_to")) if ok else False))]


# ------------------------------------------------------------------ C06 clock notations
def _clock_of_match(m, minute):
    h = g_int(m, "hour")
    ap = g_present(m, "ampm")
    return clock(h, minute, ap, g_has_letter(m, "ampm", "a"), g_has_letter(m, "ampm", "p"))


@spec("ruleHHMM")
def _hhmm(env, ts, m, res):
    mi = If(g_present(m, "minute"), g_int(m, "minute"), 0)
    return [("clock", ["C06", "C11", "C05"], And(kind(res) == "Time", only(res, "hour", "minute"),
                                   field_is(res, "hour", _clock_of_match(m, mi)), field_is(res, "minute", mi)))]


@spec("ruleHHMMmilitary")
def _military(env, ts, m, res):
    h, mi = g_int(m, "hour"), g_int(m, "minute")
    hhmm = h * 100 + mi
    year_like = Or(Eq(hhmm, ts.year), Eq(hhmm, If(ts.month > 9, ts.year + 1, ts.year)), Not(Eq(Mod(mi, 5), 0)))
    accept = Or(g_truthy(m, "clock"), Not(year_like))
    if res is None:
        return [("none-iff-year-like", ["C05", "C06"], Not(accept))]
    return [("none-iff-year-like", ["C05", "C06"], accept),
            ("clock", ["C06", "C11", "C05"], And(kind(res) == "Time", only(res, "hour", "minute"),
                                   field_is(res, "hour", _clock_of_match(m, mi)), field_is(res, "minute", mi)))]


@spec("ruleHHOClock")
def _oclock(env, ts, m, res):
    return [("hour-as-written", ["C06"], And(kind(res) == "Time", only(res, "hour"), field_is(res, "hour", g_int(m, "hour"))))]


@spec("ruleNamedHour")
def _namedhour(env, ts, m, res):
    names = group_names(m)
    ok = kind(res) == "Time"
    return [("named-hour", ["C06"], And(ok, only(res, "hour", "minute") if ok else False,
                                        field_is(res, "minute", 0) if ok else False,
                                        And(*[Implies(g_present(m, "t_%d" % n), field_is(res, "hour", n))
                                              for n in range(1, 13) if "t_%d" % n in names]) if ok else False,
                                        all("t_%d" % n in names for n in range(1, 13))))]


@spec("ruleMidnight")
def _midnight(env, ts, m, res):
    return [("midnight", ["C06"], And(kind(res) == "Time", only(res, "hour", "minute"),
                                      field_is(res, "hour", 0), field_is(res, "minute", 0)))]


def _before(minute):
    def f(env, ts, m, t, res):
        reject = And(has(t, "minute"), Not(Eq(v(t, "minute"), 0)))
        if res is None:
            return [("none-iff-minute-set", ["C06"], reject)]
        h = v(t, "hour")
        return [("none-iff-minute-set", ["C06"], Not(reject)),
                ("before-hour", ["C06"], And(kind(res) == "Time", only(res, "hour", "minute"),
                                             field_is(res, "hour", If(h > 0, h - 1, 23)), field_is(res, "minute", minute)))]
    return f


def _after(minute):
    def f(env, ts, m, t, res):
        reject = And(has(t, "minute"), Not(Eq(v(t, "minute"), 0)))
        if res is None:
            return [("none-iff-minute-set", ["C06"], reject)]
        return [("none-iff-minute-set", ["C06"], Not(reject)),
                ("after-hour", ["C06"], And(kind(res) == "Time", only(res, "hour", "minute"),
                                            field_is(res, "hour", v(t, "hour")), field_is(res, "minute", minute)))]
    return f


SPECS["ruleQuarterBeforeHH"] = _before(45)
SPECS["ruleHalfBeforeHH"] = _before(30)
SPECS["ruleQuarterAfterHH"] = _after(15)
SPECS["ruleHalfAfterHH"] = _after(30)


def _todpod(tod, pod, res):
    p = val(fld(pod, "POD"))
    h = v(tod, "hour")
    pm = pod_class(p, PM_PODS)
    am = pod_class(p, AM_PODS)
    reject = And(h > 12, am, Not(And(h < 12, pm)))
    if res is None:
        return [("none-iff-contradiction", ["C06"], reject)]
    return [("none-iff-contradiction", ["C06"], Not(reject)),
            ("hour-in-pod", ["C06"], And(kind(res) == "Time", field_is(res, "hour", If(And(h < 12, pm), h + 12, h)),
                                         same_field(res, tod, "minute"), field_none(res, "year"), field_none(res, "month"),
                                         field_none(res, "day"), field_none(res, "DOW"), field_none(res, "POD")))]


@spec("ruleTODPOD")
def _todpod1(env, ts, tod, pod, res):
    return _todpod(tod, pod, res)


@spec("rulePODTOD")
def _todpod2(env, ts, pod, tod, res):
    return _todpod(tod, pod, res)


# ------------------------------------------------------------------ C07 ranges
def _interval_of(res, frm, to):
    ok = kind(res) == "Interval"
    if not ok:
        return False
    return And(same_opt_time(fld(res, "t_from"), frm), same_opt_time(fld(res, "t_to"), to))


@spec("ruleBeforeTime")
def _beforetime(env, ts, r, t, res):
    neg = g_truthy(r, "not")
    return [("half-open", ["C07"], If(neg, _interval_of(res, t, None), _interval_of(res, None, t)))]


@spec("ruleAfterTime")
def _aftertime(env, ts, r, t, res):
    neg = g_truthy(r, "not")
    return [("half-open", ["C07"], If(neg, _interval_of(res, None, t), _interval_of(res, t, None)))]


@spec("ruleDateDate")
def _datedate(env, ts, d1, m, d2, res):
    ordered = cal.date_lt(date_of(d1), date_of(d2))
    if res is None:
        return [("none-iff-not-ordered", ["C07"], Not(ordered))]
    return [("none-iff-not-ordered", ["C07"], ordered), ("ends-as-written", ["C07"], _interval_of(res, d1, d2))]


@spec("ruleDOMDate")
def _domdate(env, ts, d1, m, d2, res):
    ordered = v(d1, "day") < v(d2, "day")
    if res is None:
        return [("none-iff-not-ordered", ["C07"], Not(ordered))]
    f = val(fld(res, "t_from")) if kind(res) == "Interval" else None
    return [("none-iff-not-ordered", ["C07"], ordered),
            ("ends-as-written", ["C07"], And(kind(res) == "Interval", same_opt_time(fld(res, "t_to"), d2),
                                             Not(isnone(fld(res, "t_from"))) if f is not None else False,
                                             And(is_date(f), date_is(f, v(d2, "year"), v(d2, "month"), v(d1, "day")))
                                             if f is not None else False))]


@spec("ruleDateDOM")
def _datedom(env, ts, d1, m, d2, res):
    ordered = v(d1, "day") < v(d2, "day")
    exists = cal.valid_date(v(d1, "year"), v(d1, "month"), v(d2, "day"))
    if res is None:
        return [("none-iff-not-ordered", ["C07", "C02"], Not(And(ordered, exists)))]
    t = val(fld(res, "t_to")) if kind(res) == "Interval" else None
    return [("none-iff-not-ordered", ["C07", "C02"], And(ordered, exists)),
            ("ends-as-written", ["C07"], And(kind(res) == "Interval", same_opt_time(fld(res, "t_from"), d1),
                                             Not(isnone(fld(res, "t_to"))) if t is not None else False,
                                             And(is_date(t), date_is(t, v(d1, "year"), v(d1, "month"), v(d2, "day")))
                                             if t is not None else False))]


@spec("ruleDOYDate")
def _doydate(env, ts, d1, m, d2, res):
    ordered = cal.lex_lt((v(d1, "month"), v(d1, "day")), (v(d2, "month"), v(d2, "day")))
    exists = cal.valid_date(v(d2, "year"), v(d1, "month"), v(d1, "day"))
    if res is None:
        return [("none-iff-not-ordered", ["C07", "C02"], Not(And(ordered, exists)))]
    f = val(fld(res, "t_from")) if kind(res) == "Interval" else None
    return [("none-iff-not-ordered", ["C07", "C02"], And(ordered, exists)),
            ("ends-as-written", ["C07"], And(kind(res) == "Interval", same_opt_time(fld(res, "t_to"), d2),
                                             Not(isnone(fld(res, "t_from"))) if f is not None else False,
                                             And(is_date(f), date_is(f, v(d2, "year"), v(d1, "month"), v(d1, "day")))
                                             if f is not None else False))]


@spec("ruleDateTimeDateTime")
def _dtdt(env, ts, d1, m, d2, res):
    key = lambda d: (v(d, "year"), v(d, "month"), v(d, "day"), v(d, "hour"), If(has(d, "minute"), v(d, "minute"), 0))
    ordered = cal.lex_lt(key(d1), key(d2))
    if res is None:
        return [("none-iff-not-ordered", ["C07"], Not(ordered))]
    return [("none-iff-not-ordered", ["C07"], ordered), ("ends-as-written", ["C07"], _interval_of(res, d1, d2))]


@spec("ruleTODTOD")
def _todtod(env, ts, t1, m, t2, res):
    ok = kind(res) == "Interval"
    to = val(fld(res, "t_to")) if ok else None
    h1, h2 = v(t1, "hour"), v(t2, "hour")
    shift = And(h1 > h2, h1 <= 12, h2 <= 12)          # "9-5": the implicit am -> pm reading
    return [("start-as-written", ["C07"], And(ok, same_opt_time(fld(res, "t_from"), t1) if ok else False)),
            ("end-as-written-or-12h-later", ["C07"],
             And(ok, Not(isnone(fld(res, "t_to"))) if ok else False,
                 And(only(to, "hour") if False else True, field_is(to, "hour", If(shift, h2 + 12, h2)),
                     same_field(to, t2, "minute"), field_none(to, "year"), field_none(to, "month"),
                     field_none(to, "day"), field_none(to, "DOW"), field_none(to, "POD")) if to is not None else False))]


@spec("rulePODPOD")
def _podpod(env, ts, t1, m, t2, res):
    return [("ends-as-written", ["C07"], _interval_of(res, t1, t2))]


def _is_tod(t):
    return Or(only(t, "hour"), only(t, "hour", "minute"))


@spec("ruleDateInterval")
def _dateinterval(env, ts, d, i, res):
    pt = env.pod_table
    fn, f = opt_obj(fld(i, "t_from"))
    tn, t = opt_obj(fld(i, "t_to"))
    okend = lambda n, x: Or(n, _is_tod(x), only(x, "POD"))
    accept = And(okend(fn, f), okend(tn, t))
    if res is None:
        return [("none-iff-end-is-no-clock", ["C07"], Not(accept))]
    out = [("none-iff-end-is-no-clock", ["C07"], accept)]
    ok = kind(res) == "Interval"
    rfn, rf = opt_obj(fld(res, "t_from")) if ok else (True, None)
    rtn, rt = opt_obj(fld(res, "t_to")) if ok else (True, None)
    y, mo, dd = date_of(d)

    def start_on(x):          # minutes since the start of day d of an end as written
        h, m_ = WF.start_hm(x, pt)
        return h * 60 + m_
    cs = [ok, Iff(rfn, fn), Iff(rtn, tn)]
    if rf is not None:
        cs.append(Or(rfn, And(date_is(rf, y, mo, dd), same_field(rf, f, "hour"), same_field(rf, f, "minute"),
                              same_field(rf, f, "POD"), field_none(rf, "DOW"))))
    out.append(("start-on-the-date", ["C07"], And(*cs)))
    if rf is not None and rt is not None:
        both = And(Not(fn), Not(tn))
        o0 = cal.ordinal(y, mo, dd)
        a = o0 * 1440 + start_on(f)
        wrap = start_on(t) <= start_on(f)          # written end not after the start
        both12 = And(has(f, "hour"), has(t, "hour"), v(f, "hour") <= 12, v(t, "hour") <= 12, v(f, "hour") >= v(t, "hour"))
        want = o0 * 1440 + start_on(t) + If(wrap, If(both12, 720, 1440), 0)
        got = start_minutes(rt, pt) if True else 0
        out.append(("end-moved-0-12h-or-1day", ["C07"],
                    Implies(both, And(cal.valid_date(*date_of(rt)), Eq(got, want), same_field(rt, t, "POD"),
                                      field_none(rt, "DOW")))))
        out.append(("start-before-end-within-24h", ["C07", "C02"],
                    Implies(both, And(a < start_minutes(rt, pt), start_minutes(rt, pt) <= a + 1440))))
        out.append(("single-end-on-the-date", ["C07"],
                    Implies(And(fn, Not(tn)), And(date_is(rt, y, mo, dd), same_field(rt, t, "hour"),
                                                 same_field(rt, t, "minute"), same_field(rt, t, "POD")))))
    return out


@spec("rulePODInterval")
def _podinterval(env, ts, p, i, res):
    fn, f = opt_obj(fld(i, "t_from"))
    tn, t = opt_obj(fld(i, "t_to"))
    accept = And(Or(fn, has(f, "hour")), Or(tn, has(t, "hour")))
    pm = pod_class(val(fld(p, "POD")), PM_PODS)
    adj = lambda x: If(And(v(x, "hour") < 12, pm), v(x, "hour") + 12, v(x, "hour"))
    mi = lambda x: If(has(x, "minute"), v(x, "minute"), 0)
    same_day = And(same_field(f, t, "year"), same_field(f, t, "month"), same_field(f, t, "day"))
    inverted = And(Not(fn), Not(tn), same_day, cal.lex_le((adj(t), mi(t)), (adj(f), mi(f))))
    if res is None:
        return [("none-iff-no-clock-or-inverted", ["C07", "C02"], Or(Not(accept), inverted))]
    ok = kind(res) == "Interval"
    rfn, rf = opt_obj(fld(res, "t_from")) if ok else (True, None)
    rtn, rt = opt_obj(fld(res, "t_to")) if ok else (True, None)

    def moved(r, x):
        return And(field_is(r, "hour", adj(x)), same_field(r, x, "minute"), same_field(r, x, "year"),
                   same_field(r, x, "month"), same_field(r, x, "day"), same_field(r, x, "DOW"), field_none(r, "POD"))
    return [("none-iff-no-clock-or-inverted", ["C07", "C02"], And(accept, Not(inverted))),
            ("ends-moved-into-pod", ["C07"], And(ok, Iff(rfn, fn), Iff(rtn, tn),
                                                  Or(rfn, moved(rf, f)) if rf is not None else rfn,
                                                  Or(rtn, moved(rt, t)) if rt is not None else rtn))]


# ------------------------------------------------------------------ C08 durations
def _unit_of_match(m, res_unit):
    names = group_names(m)
    return And(*[Implies(g_truthy(m, "d_" + u), unit_is(res_unit, u)) for u in UNITS if "d_" + u in names] +
               [all("d_" + u in names for u in UNITS)])


@spec("ruleDigitDuration")
def _digitdur(env, ts, m, res):
    too_long = g_len(m, "num") > 4
    if res is None:
        return [("none-iff-amount-too-long", ["C08", "C01"], too_long)]
    ok = kind(res) == "Duration"
    return [("none-iff-amount-too-long", ["C08", "C01"], Not(too_long)),
            ("amount-and-unit", ["C08"], And(ok, Eq(v(res, "value"), g_int(m, "num")) if ok else False,
                                             _unit_of_match(m, fld(res, "unit")) if ok else False))]


@spec("ruleNamedNumberDuration")
def _nameddur(env, ts, m, res):
    names = group_names(m)
    ok = kind(res) == "Duration"
    return [("amount-and-unit", ["C08"],
             And(ok, And(*[Implies(g_truthy(m, "n_%d" % n), Eq(v(res, "value"), n)) for n in range(1, 32)
                           if "n_%d" % n in names]) if ok else False,
                 all("n_%d" % n in names for n in range(1, 32)),
                 _unit_of_match(m, fld(res, "unit")) if ok else False))]


@spec("ruleDurationHalf")
def _halfdur(env, ts, m, res):
    hours, days = g_truthy(m, "d_hours"), g_truthy(m, "d_days")
    if res is None:
        return [("half-hour-or-day", ["C08"], Not(Or(hours, days)))]
    ok = kind(res) == "Duration"
    return [("half-hour-or-day", ["C08"],
             And(ok, Or(hours, days),
                 If(hours, And(Eq(v(res, "value"), 30), unit_is(fld(res, "unit"), "minutes")),
                    And(Eq(v(res, "value"), 12), unit_is(fld(res, "unit"), "hours"))) if ok else False))]


def _durinterval(dur, interval, res):
    n = v(dur, "value")
    u = fld(dur, "unit")
    f, t = val(fld(interval, "t_from")), val(fld(interval, "t_to"))
    length = ord_of(t) - ord_of(f)
    daylike = Or(unit_is(u, "days"), unit_is(u, "nights"))
    if res is None:
        return [("accepted-iff-n-days-long", ["C08"], Implies(daylike, Not(Eq(length, n))))]
    ok = kind(res) == "Interval"
    return [("accepted-iff-n-days-long", ["C08"], Implies(daylike, Eq(length, n))),
            ("range-unchanged", ["C08"], And(ok, same_opt_time(fld(res, "t_from"), fld(interval, "t_from")) if ok else False,
                                             same_opt_time(fld(res, "t_to"), fld(interval, "t_to")) if ok else False))]


@spec("ruleDurationInterval")
def _durint1(env, ts, dur, interval, res):
    return _durinterval(dur, interval, res)


@spec("ruleIntervalDuration")
def _durint2(env, ts, interval, dur, res):
    return _durinterval(dur, interval, res)


@spec("ruleIntervalConjDuration")
def _durint3(env, ts, interval, m, dur, res):
    return _durinterval(dur, interval, res)


@spec("ruleTimeDuration")
def _timedur(env, ts, t, m, dur, res):
    pt = env.pod_table
    n = v(dur, "value")
    u = fld(dur, "unit")
    ok = kind(res) == "Interval"
    if not ok:
        return [("interval-from-date", ["C08"], False)]
    rtn, e = opt_obj(fld(res, "t_to"))
    y, mo, d = date_of(t)
    o = cal.ordinal(y, mo, d)
    # calendar arithmetic of the statement
    tm = (y * 12 + (mo - 1)) + n
    ey, em = Div(tm, 12), Mod(tm, 12) + 1
    ed = If(d <= cal.dim(ey, em), d, cal.dim(ey, em))
    daylike = Or(unit_is(u, "days"), unit_is(u, "nights"))
    end_date = And(only(e, "year", "month", "day"), cal.valid_date(*date_of(e)),
                   If(daylike, Eq(ord_of(e), o + n),
                      If(unit_is(u, "weeks"), Eq(ord_of(e), o + 7 * n), date_is(e, ey, em, ed))))
    sh, sm = WF.start_hm(t, pt)
    a = o * 1440 + sh * 60 + sm
    step = If(unit_is(u, "hours"), 60 * n, n)
    end_clock = And(only(e, "year", "month", "day", "hour", "minute"), cal.valid_date(*date_of(e)),
                    Eq(ord_of(e) * 1440 + v(e, "hour") * 60 + v(e, "minute"), a + step))
    clocklike = Or(unit_is(u, "hours"), unit_is(u, "minutes"))
    return [("interval-from-date", ["C08"], And(same_opt_time(fld(res, "t_from"), t), Not(rtn))),
            ("ends-n-units-later", ["C08"], If(clocklike, end_clock, end_date))]


# ------------------------------------------------------------------ canaries (deliberately FALSE contracts)
# Run on every check: the verifier must refute them and the counter-model must replay on the real
# code; otherwise the engine is broken (exit 3).  They are never part of a property's obligations.
@spec("canary/ruleTomorrow")
def _canary_tomorrow(env, ts, m, res):
    return [("canary-ordinal+2", [], And(is_date(res), Eq(ord_of(res), ts_ord(ts) + 2)))]


@spec("canary/ruleHHOClock")
def _canary_oclock(env, ts, m, res):
    return [("canary-hour-is-never-23", [], And(kind(res) == "Time", Not(field_is(res, "hour", 23))))]


@spec("canary/ruleDateDate")
def _canary_datedate(env, ts, d1, m, d2, res):
    return [("canary-always-an-interval", [], res is not None)]
