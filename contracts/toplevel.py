"""Units for the entry points: ctparse(), ctparse_gen(), CTParse rendering, _get_labels and the
label/subject prefix of _ctparse."""
import ast
import z3

from pyvc.values import (FuncVal, Builtin, Obj, SOpt, UTerm, Tok, Unsupported, PyRaise, ClassVal, is_z3)
from pyvc.interp import Frame, ReturnSig
from pyvc.logic import And, Or, Not, Implies
from pyvc import symargs
from pyvc.models import DT
from contracts.extra import FuncUnit, _ts, _wf_arg
from contracts.generic import wf_value
from spec import wf as WF

GEN_PARAMS = ["txt", "ts", "timeout", "relative_match_len", "max_stack_depth", "scorer", "latent_time"]


def same_value(it, a, b):
    """is b provably the very value a (identity for tokens/objects, equality for scalars)"""
    if a is b:
        return True
    if isinstance(a, SOpt) and isinstance(b, SOpt):
        return a.is_none is b.is_none and a.val is b.val
    if is_z3(a) or is_z3(b):
        if isinstance(a, (Tok, Obj, SOpt, UTerm)) or isinstance(b, (Tok, Obj, SOpt, UTerm)):
            return False
        return a == b
    if isinstance(a, UTerm):
        return a.same(b)
    if isinstance(a, (bool, int, float, str)) and type(a) == type(b):
        return a == b
    return False


def mk_params(it):
    return {
        "txt": UTerm("input", ["txt"], "str"),
        "ts": SOpt(z3.Bool("ts?none"), Tok("ts")),
        "timeout": z3.Real("timeout"),
        "relative_match_len": z3.Real("relative_match_len"),
        "max_stack_depth": z3.Int("max_stack_depth"),
        "scorer": SOpt(z3.Bool("scorer?none"), Tok("scorer")),
        "latent_time": z3.Bool("latent_time"),
    }


def mk_ctparse_obj(it, w, tag, with_resolution=True):
    cls = w.classes["CTParse"]
    o = Obj(cls, fresh=False, label=tag)
    # the resolution is a value with a span (a candidate's own attributes may legitimately be looked at)
    res = Obj(w.classes["Time"], fresh=False, label=tag + ".resolution")
    res.attrs.update({"year": None, "month": None, "day": None, "hour": z3.Int(tag + ".hour"), "minute": None, "DOW": None, "POD": None,
                      "mstart": z3.Int(tag + ".mstart"), "mend": z3.Int(tag + ".mend"), "_attrs": ["year", "month", "day", "hour", "minute", "DOW", "POD"]})
    it.assume(z3.And(res.attrs["mstart"] >= 0, res.attrs["mend"] > res.attrs["mstart"], res.attrs["mend"] <= 400,
                     res.attrs["hour"] >= 0, res.attrs["hour"] <= 23))
    o.attrs["resolution"] = res if with_resolution else Tok(tag + ".resolution")
    o.attrs["production"] = Tok(tag + ".production")
    o.attrs["score"] = z3.Real(tag + ".score")
    o.attrs["subject"] = UTerm("input", [tag + ".subject"], "str")
    o.attrs["labels"] = UTerm("input", [tag + ".labels"], "list")
    return o


def pipeline_terms(it, w, txt_term):
    """run the prefix of the real _ctparse (label extraction + subject) on an input without pattern
    matches: -> (labels term, subject term) as the match path computes them"""
    f = w.func("ctparse._ctparse")
    fr = Frame(f, None)
    fr.vars.update({"txt": txt_term, "ts": Tok("ts"), "timeout": 0, "relative_match_len": 1.0,
                    "max_stack_depth": 10, "scorer": Tok("scorer")})
    saved = dict(it.contracts)
    it.contracts = dict(saved)
    it.contracts["ctparse._get_labels"] = lambda it2, f2, a, k: UTerm("labels", [a[0]], "list")
    it.contracts["ctparse._match_regex"] = lambda it2, f2, a, k: []
    it.contracts["ctparse._regex_stack"] = lambda it2, f2, a, k: []
    it.contracts["timers.timeout"] = lambda it2, f2, a, k: Builtin("t_fun", lambda i3, a3, k3: None)
    it.contracts["timers.timeit"] = lambda it2, f2, a, k: Builtin("timed", lambda i3, a3, k3, _f=a[0]: (i3.call(_f, a3, k3), 0.0))
    try:
        body = f.node.body
        tr = [s for s in body if isinstance(s, ast.Try)]
        stmts = tr[0].body if tr else body
        for s in body:
            if s is (tr[0] if tr else None):
                break
            it.exec(s, fr)
        for s in stmts:
            if isinstance(s, ast.While):
                break
            it.exec(s, fr)
    finally:
        it.contracts = saved
    return fr.vars.get("labels"), fr.vars.get("subject")


def units(world):
    out = []

    # ---------------------------------------------------------------- ctparse()
    def mk_ctparse(n, debug, none_elem=False):
        def setup(it, w):
            P = mk_params(it)
            if none_elem:
                stream = [None]
            else:
                stream = [mk_ctparse_obj(it, w, "p%d" % i) for i in range(n)]
            return [P, stream, {}]

        def call(it, w, a):
            P, stream, seen = a
            gen = w.func("ctparse.ctparse_gen")

            def gen_contract(it2, f2, args, kwargs):
                seen["bound"] = it2.bind_args(f2, args, kwargs)
                return list(stream)
            it.contracts = dict(it.contracts)
            it.contracts["ctparse.ctparse_gen"] = gen_contract
            it.contracts["ctparse._preprocess_string"] = lambda it2, f2, args, k: UTerm("preprocess", [args[0]], "str")
            it.contracts["ctparse._get_labels"] = lambda it2, f2, args, k: UTerm("labels", [args[0]], "list")
            f = w.func("ctparse.ctparse")
            return it.call(f, [P["txt"], P["ts"]], {"timeout": P["timeout"], "debug": debug,
                                                     "relative_match_len": P["relative_match_len"],
                                                     "max_stack_depth": P["max_stack_depth"], "scorer": P["scorer"],
                                                     "latent_time": P["latent_time"]})

        def ens(it, w, a, r):
            P, stream, seen = a
            b = seen.get("bound")
            out2 = []
            fwd = b is not None and all(same_value(it, P[k], b.get(k)) for k in GEN_PARAMS)
            if b is not None and not isinstance(fwd, bool):
                fwd = And(*[same_value(it, P[k], b.get(k)) for k in GEN_PARAMS])
            out2.append(("arguments-forwarded-to-the-stream", ["C14", "C03", "C13", "C01"], fwd))
            if debug:
                out2.append(("debug-returns-the-stream", ["C14"], isinstance(r, list) and len(r) == len(stream)
                             and all(x is y for x, y in zip(r, stream))))
                return out2
            if n == 0 or none_elem:
                ok = isinstance(r, Obj) and r.cls.name == "CTParse"
                labels_m, subject_m = pipeline_terms(it, w, UTerm("preprocess", [P["txt"]], "str")) if ok else (None, None)
                out2.append(("empty-stream-gives-empty-resolution", ["C14", "C01"],
                             ok and r.attrs.get("resolution") is None and r.attrs.get("production") is None
                             and r.attrs.get("score") is None))
                out2.append(("subject-is-str-labels-is-list", ["C01"],
                             ok and isinstance(r.attrs.get("subject"), (str, UTerm)) and getattr(r.attrs.get("subject"), "sort", "str") == "str"
                             and isinstance(r.attrs.get("labels"), (list, UTerm)) and getattr(r.attrs.get("labels"), "sort", "list") == "list"))
                out2.append(("no-match-subject-and-labels-as-on-the-match-path", ["C10"],
                             ok and isinstance(subject_m, UTerm) and subject_m.same(r.attrs.get("subject"))
                             and isinstance(labels_m, UTerm) and labels_m.same(r.attrs.get("labels"))))
                return out2
            is_elem = any(r is x for x in stream)
            out2.append(("result-is-a-stream-element", ["C14"], is_elem))
            if is_elem:
                out2.append(("result-has-maximal-score", ["C14"], And(*[x.attrs["score"] <= r.attrs["score"] for x in stream])))
            return out2
        tag = "None-element" if none_elem else "n=%d%s" % (n, ",debug" if debug else "")
        u = FuncUnit("ctparse.ctparse[%s]" % tag, ["ctparse.ctparse"], ["C01", "C03", "C10", "C13", "C14", "C12"],
                     setup, call, ens, prop_map={"safety": ["C01"], "frame": ["C12"]})
        if n >= 2 and not debug and not none_elem:
            u.bounded_desc = "list.sort / selection executed for a stream of exactly %d candidates with symbolic scores" % n
            u.bounded_except = ("arguments-forwarded-to-the-stream",)
        return u
    def mk_ctparse_any():
        """ctparse() on a stream of ANY length N >= 1 of candidates (none of them None): the result is an element
        of the stream and no element has a higher score.  list.sort enters through its trusted contract
        (permutation + ascending keys, A-py); no unrolling."""
        from pyvc.values import ObjSeq, ObjSeqElem
        SCORE = z3.Function("cand.score", z3.IntSort(), z3.RealSort())

        def setup(it, w):
            P = mk_params(it)
            n = z3.Int("N")
            it.assume(n >= 1)
            LEN = z3.Function("cand.resolution.len", z3.IntSort(), z3.IntSort())

            def resolution(b):
                # the candidate's resolution: a value whose span length is some function of the candidate
                r = Obj(w.classes["Time"], fresh=False, label="cand.resolution")
                r.attrs.update({"year": None, "month": None, "day": None, "hour": None, "minute": None, "DOW": None, "POD": None,
                                "mstart": z3.IntVal(0), "mend": LEN(b)})
                return r
            return [P, ObjSeq("stream", n, {"score": lambda b: SCORE(b), "resolution": resolution}), {}]

        def call(it, w, a):
            P, stream, seen = a

            def gen_contract(it2, f2, args, kwargs):
                seen["bound"] = it2.bind_args(f2, args, kwargs)
                return stream
            it.contracts = dict(it.contracts)
            it.contracts["ctparse.ctparse_gen"] = gen_contract
            it.contracts["ctparse._preprocess_string"] = lambda it2, f2, args, k: UTerm("preprocess", [args[0]], "str")
            it.contracts["ctparse._get_labels"] = lambda it2, f2, args, k: UTerm("labels", [args[0]], "list")
            return it.call(w.func("ctparse.ctparse"), [P["txt"], P["ts"]],
                           {"timeout": P["timeout"], "debug": False, "relative_match_len": P["relative_match_len"],
                            "max_stack_depth": P["max_stack_depth"], "scorer": P["scorer"], "latent_time": P["latent_time"]})

        def ens(it, w, a, r):
            P, stream, seen = a
            n = stream.n
            if not isinstance(r, ObjSeqElem):
                return [("result-is-a-stream-element", ["C14"], False)]
            rb = r.base
            j0 = z3.Int("j0")
            hints = []
            for pi, inv, key_of in stream.sorts:
                # ground instances of the (assumed) contract of sort, for the arbitrary element number j0
                hints += [z3.Implies(z3.And(j0 >= 0, j0 < n), z3.And(inv(j0) >= 0, inv(j0) < n, pi(inv(j0)) == j0))]
            goal_max = z3.Implies(z3.And(j0 >= 0, j0 < n), SCORE(j0) <= SCORE(rb))
            for h in hints:
                it.assume(h)
            return [("result-is-a-stream-element", ["C14"], z3.And(rb >= 0, rb < n)),
                    ("result-has-maximal-score", ["C14"], goal_max),
                    ("sorted-exactly-once-by-score", ["C14"], len(stream.sorts) == 1)]
        return FuncUnit("ctparse.ctparse[any n]", ["ctparse.ctparse"], ["C01", "C14", "C12"], setup, call, ens,
                        prop_map={"safety": ["C01"], "frame": ["C12"]})
    out.append(mk_ctparse_any())

    def mk_ctparse_defaults():
        """ctparse(txt) with every option omitted: what reaches the stream are the documented
        defaults, and the reference time is still undetermined (None -> read at call time)"""
        def setup(it, w):
            return [{"txt": UTerm("input", ["txt"], "str")}, [], {}]

        def call(it, w, a):
            P, stream, seen = a
            it.contracts = dict(it.contracts)

            def gen_contract(it2, f2, args, kwargs):
                seen["bound"] = it2.bind_args(f2, args, kwargs)
                return []
            it.contracts["ctparse.ctparse_gen"] = gen_contract
            it.contracts["ctparse._preprocess_string"] = lambda it2, f2, args, k: UTerm("preprocess", [args[0]], "str")
            it.contracts["ctparse._get_labels"] = lambda it2, f2, args, k: UTerm("labels", [args[0]], "list")
            return it.call(w.func("ctparse.ctparse"), [P["txt"]], {})

        def ens(it, w, a, r):
            b = a[2].get("bound") or {}
            reads = it.ghost.get("clock_reads", [])
            ts_ok = b.get("ts", 0) is None and not reads
            doc = {"timeout": 1.0, "relative_match_len": 1.0, "max_stack_depth": 10, "scorer": None, "latent_time": True}
            return [("omitted-reference-time-is-read-at-call-time", ["C03"], ts_ok),
                    ("documented-defaults", ["C14", "C13"], all(type(b.get(k)) == type(v) and b.get(k) == v for k, v in doc.items()))]
        return FuncUnit("ctparse.ctparse[defaults]", ["ctparse.ctparse"], ["C03", "C13", "C14"], setup, call, ens,
                        prop_map={"safety": ["C01"], "frame": ["C12"]})
    out.append(mk_ctparse_defaults())
    for n in (0, 1, 2, 3):
        out.append(mk_ctparse(n, False))
    out.append(mk_ctparse(2, True))
    out.append(mk_ctparse(1, False, none_elem=True))

    # ---------------------------------------------------------------- CTParse.__str__ / __repr__
    def mk_render(shape, meth):
        def setup(it, w):
            cls = w.classes["CTParse"]
            if shape == "match":
                res = _wf_arg(it, w, symargs.mk_time(it, w, "res"))
                args = [res, ("R1", 100, "ruleX"), z3.Real("score"), UTerm("input", ["subject"], "str"),
                        UTerm("input", ["labels"], "list")]
            else:
                args = [None, None, None, UTerm("input", ["subject"], "str"), UTerm("input", ["labels"], "list")]
            return [it.instantiate(cls, args, {})]

        def call(it, w, a):
            return it.call(it.getattr_(a[0], meth), [], {})

        def ens(it, w, a, r):
            return [("renders-to-str", ["C01"], it.typeof(r).name == "str" if hasattr(it.typeof(r), "name") else False)]
        return FuncUnit("ctparse.CTParse.%s[%s]" % (meth, shape), ["ctparse.CTParse.%s" % meth, "ctparse.CTParse.__init__"],
                        ["C01"], setup, call, ens, check_frame=False)
    for shape in ("match", "no-match"):
        for meth in ("__str__", "__repr__"):
            out.append(mk_render(shape, meth))
    return out


# ---------------------------------------------------------------------------------------------
# labels: _get_labels and the hashtag lemmas (C10)
VALID_TAG = r"[A-Za-z_][A-Za-z0-9_-]*"       # from the property's quantifier text


def _str_consts_in(node, fname, module_globals=None):
    """pattern arguments of calls to re.<fname> inside a function node: string literals, or names of module-level
    string constants; None stands for an argument that is neither (the caller then decides nothing)"""
    out = []
    for n in ast.walk(node):
        if isinstance(n, ast.Call) and isinstance(n.func, ast.Attribute) and n.func.attr == fname and n.args:
            a = n.args[0]
            if isinstance(a, ast.Constant) and isinstance(a.value, str):
                out.append(a.value)
            elif isinstance(a, ast.Name) and isinstance((module_globals or {}).get(a.id), str):
                out.append(module_globals[a.id])
            else:
                out.append(None)
    return out


class LabelUnit:
    kind = "labels"
    name = "ctparse._get_labels"
    qualnames = ["ctparse._get_labels"]
    props = {"C10", "C12", "C01"}
    cost = 1

    def sha(self, world):
        return world.sha(world.func("ctparse._get_labels"))

    def run(self, world, prop, tier):
        from pyvc.vcgen import Obligation, explore
        from pyvc.regexmodel import PatternModel, WS_CHARS
        import time
        obs = []

        def ob(clause, props, ok, detail="", cex=None):
            o = Obligation(self.name, clause, props)
            o.kind = "labels"
            o.paths = o.queries = 1
            o.backend["z3"] += 1
            if not ok:
                o.status, o.detail, o.cex = "failed", detail, cex
                o.no_input_expected = cex is None
                o.shape_only = clause.startswith("labels-are-the-matches")
            obs.append(o)
            return o
        f = world.func("ctparse._get_labels")
        txt = UTerm("input", ["txt"], "str")
        res, stats = explore(world, lambda it: [txt], lambda it, a: it.call(f, a, {}))
        r = res[0]
        ok = len(res) == 1 and r.kind == "return"
        val = r.value if ok else None
        shape = (isinstance(val, UTerm) and val.fn == "comp" and isinstance(val.args[0], UTerm)
                 and val.args[0].fn == "re.findall" and isinstance(val.args[0].args[0], str)
                 and isinstance(val.args[0].args[1], UTerm) and val.args[0].args[1].same(txt) and val.args[2] == ()
                 and isinstance(val.args[1], UTerm) and isinstance(val.args[1].args[0], UTerm) and val.args[1].args[0].fn == "elem"
                 and ((val.args[1].fn == "str.replace" and tuple(val.args[1].args[1:]) == ("#", ""))
                      or (val.args[1].fn == "slice" and tuple(val.args[1].args[1:]) == (1, None, None))
                      or (val.args[1].fn == "str.lstrip" and tuple(val.args[1].args[1:]) == ("#",))))
        ob("labels-are-the-matches-in-text-order-without-hash", ["C10", "C12", "C01"], bool(ok and shape),
           "the result is not [m.replace('#','') for m in re.findall(P, txt)] (an order-preserving map over the matches): %r" % (
               val if ok else r.value,), cex={"args": {"kind": "label-order"}})
        find = val.args[0].args[0] if ok and shape else None
        # the stripping regex at its two call sites
        mg = world.modules["ctparse.ctparse"].globals
        # the no-match path: ctparse() itself and the module-level helpers it calls (other than the search and the label / normalisation functions)
        cnode = world.func("ctparse.ctparse").node
        nodes = [cnode]
        for n in ast.walk(cnode):
            if isinstance(n, ast.Call) and isinstance(n.func, ast.Name) and n.func.id not in ("ctparse_gen", "_ctparse", "_get_labels", "_preprocess_string"):
                try:
                    nodes.append(world.func("ctparse." + n.func.id).node)
                except Exception:
                    pass
        strips = _str_consts_in(world.func("ctparse._ctparse").node, "sub", mg)
        for nd in nodes:
            strips += _str_consts_in(nd, "sub", mg)
        if len(strips) != 2 or None in strips:
            o = ob("same-strip-pattern-on-both-paths", ["C10"], True)
            o.status, o.detail = "unsupported", "expected one re.sub(<pattern constant>, ...) on each path, found %r" % (strips,)
            strips = [x for x in strips if x is not None]
        else:
            ob("same-strip-pattern-on-both-paths", ["C10"], strips[0] == strips[1],
               "label stripping patterns differ between match and no-match path: %r" % (strips,))
        S = z3.StringSort()
        w = z3.String("w")
        valid = PatternModel(0, "#" + VALID_TAG, {}, ignorecase=False).reglan()
        full = z3.Full(z3.ReSort(S))
        seps = z3.Union(*[z3.Re(z3.StringVal(c)) for c in WS_CHARS + ",;()[]{}"])

        def lemma(clause, pattern, mk, detail):
            if pattern is None:
                # the function no longer has the shape the constant is read from: nothing is decided about the lemma
                o = ob(clause, ["C10"], True)
                o.status, o.detail = "unsupported", "pattern constant not found (the function is not `re.findall(P, txt)` + an order-preserving map any more)"
                return
            try:
                L = PatternModel(0, pattern, {}, ignorecase=False).reglan()
            except Exception as e:
                o = ob(clause, ["C10"], True)
                o.status, o.detail = "unsupported", "cannot parse %r: %s" % (pattern, e)
                return
            s = z3.Solver()
            s.set("timeout", 20000)
            s.add(mk(L))
            rr = s.check()
            if rr == z3.unsat:
                ob(clause, ["C10"], True)
            elif rr == z3.sat:
                wit = s.model().eval(w, model_completion=True).as_string()
                ob(clause, ["C10"], False, detail % wit, cex={"args": {"kind": "hashtag", "word": wit, "pattern": pattern}})
            else:
                o = ob(clause, ["C10"], True)
                o.status, o.detail = "undecided", "solver unknown"
        lemma("every-valid-hashtag-is-found-whole", find,
              lambda L: z3.And(z3.InRe(w, valid), z3.Not(z3.InRe(w, L))), "valid hashtag %r is not (entirely) matched by the finding pattern")
        strip = strips[0] if strips else None
        lemma("every-valid-hashtag-is-stripped-whole", strip,
              lambda L: z3.And(z3.InRe(w, valid), z3.Not(z3.InRe(w, L))), "valid hashtag %r is not (entirely) removed by the stripping pattern")
        lemma("stripping-touches-only-hashtags", strip,
              lambda L: z3.And(z3.InRe(w, L), z3.Or(z3.Not(z3.PrefixOf(z3.StringVal("#"), w)), z3.InRe(w, z3.Concat(full, seps, full)))),
              "the stripping pattern matches %r: not a single '#'-word")
        return obs, {"paths": stats["paths"], "assumptions": [
            "re.findall returns the non-overlapping matches in text order (A-regex); hashtag lemmas are about valid hashtags [A-Za-z_][A-Za-z0-9_-]* delimited by separators"]}


_units_base = units


def units(world):  # noqa: F811
    return _units_base(world) + [LabelUnit()]


# ---------------------------------------------------------------------------------------------
# ctparse_gen: reference-time defaulting, forwarding to _ctparse, latent-time branch
def gen_units(world):
    out = []
    CT_PARAMS = ["txt", "ts", "timeout", "relative_match_len", "max_stack_depth", "scorer"]

    def mk_gen(n, ts_given, scorer_given):
        def setup(it, w):
            P = mk_params(it)
            P["ts"] = Tok("ts") if ts_given else None
            P["scorer"] = Tok("scorer") if scorer_given else None
            stream = []
            for i in range(n):
                o = mk_ctparse_obj(it, w, "p%d" % i)
                o.fresh = True          # allocated by _ctparse during this call
                stream.append(o)
            return [P, stream, {"post": []}]

        def call(it, w, a):
            P, stream, seen = a
            it.contracts = dict(it.contracts)

            def c_ctparse(it2, f2, args, kwargs):
                seen["bound"] = it2.bind_args(f2, args, kwargs)
                return list(stream)

            def c_post(it2, f2, args, kwargs):
                seen["post"].append(tuple(args))
                return Tok("post(%s)" % getattr(args[1], "name", "?"))
            it.contracts["ctparse._ctparse"] = c_ctparse
            it.contracts["postprocess_latent.apply_postprocessing_rules"] = c_post
            it.contracts["ctparse._preprocess_string"] = lambda it2, f2, args, k: UTerm("preprocess", [args[0]], "str")
            seen["res0"] = [o.attrs["resolution"] for o in stream]
            f = w.func("ctparse.ctparse_gen")
            return it.call(f, [P["txt"], P["ts"]], {"timeout": P["timeout"], "relative_match_len": P["relative_match_len"],
                                                     "max_stack_depth": P["max_stack_depth"], "scorer": P["scorer"],
                                                     "latent_time": P["latent_time"]})

        def ens(it, w, a, r):
            P, stream, seen = a
            b = seen.get("bound") or {}
            reads = it.ghost.get("clock_reads", [])
            out2 = []
            ts_in = b.get("ts")
            if ts_given:
                ts_ok = ts_in is P["ts"] and not reads
            else:
                ts_ok = (isinstance(ts_in, DT) and getattr(ts_in, "is_now", False) and ts_in.phase == "call"
                         and len(reads) == 1 and reads[0] is ts_in)
            out2.append(("reference-time-given-or-read-at-call-time", ["C03"], ts_ok))
            fw = (isinstance(b.get("txt"), UTerm) and b["txt"].same(UTerm("preprocess", [P["txt"]], "str"))
                  and all(same_value(it, P[k], b.get(k)) is True or is_z3(same_value(it, P[k], b.get(k))) for k in ("timeout", "relative_match_len", "max_stack_depth")))
            fwz = And(*[same_value(it, P[k], b.get(k)) for k in ("timeout", "relative_match_len", "max_stack_depth")]) if b else False
            sc = b.get("scorer")
            sc_ok = (sc is P["scorer"]) if scorer_given else (isinstance(sc, Tok) and sc.name.endswith("_DEFAULT_SCORER"))
            out2.append(("options-forwarded-to-the-search", ["C14", "C13", "C01"], And(bool(fw), fwz, sc_ok)))
            # C11 / C10: everything behind the entry point (labels, patterns, subject) works on the NORMALISED text
            out2.append(("text-reaches-the-search-normalised", ["C11", "C10"],
                         isinstance(b.get("txt"), UTerm) and b["txt"].same(UTerm("preprocess", [P["txt"]], "str"))))
            same_stream = isinstance(r, list) and len(r) == len(stream) and all(x is y for x, y in zip(r, stream))
            out2.append(("yields-every-candidate-in-order", ["C14", "C13", "C15"], same_stream))
            lt = P["latent_time"]
            if same_stream:
                posted = seen["post"]
                path_latent = len(posted) == len(stream) and len(stream) > 0
                ok_on = all(pa[0] is ts_in and pa[1] is r0 for pa, r0 in zip(posted, seen["res0"])) and \
                    all(isinstance(o.attrs["resolution"], Tok) and o.attrs["resolution"].name.startswith("post(") for o in stream)
                ok_off = all(o.attrs["resolution"] is r0 for o, r0 in zip(stream, seen["res0"])) and not posted
                if n == 0:
                    out2.append(("latent-anchoring-iff-requested", ["C06", "C09"], not posted))
                else:
                    out2.append(("latent-anchoring-iff-requested", ["C06", "C09"],
                                 And(Implies(lt, path_latent and ok_on), Implies(Not(lt), (not path_latent) and ok_off))))
            return out2
        return FuncUnit("ctparse.ctparse_gen[n=%d,%s,%s]" % (n, "ts" if ts_given else "ts omitted", "scorer" if scorer_given else "default scorer"),
                        ["ctparse.ctparse_gen"], ["C01", "C03", "C06", "C09", "C10", "C11", "C13", "C14", "C15", "C12"], setup, call, ens,
                        prop_map={"safety": ["C01"], "frame": ["C12"]})
    for n in (0, 2):
        for tg in (True, False):
            out.append(mk_gen(n, tg, tg))

    def mk_gen_defaults():
        """ctparse_gen(txt) with every option omitted: the documented defaults reach the search"""
        def setup(it, w):
            return [{"txt": UTerm("input", ["txt"], "str")}, {}]

        def call(it, w, a):
            P, seen = a
            it.contracts = dict(it.contracts)

            def c_ctparse(it2, f2, args, kwargs):
                seen["bound"] = it2.bind_args(f2, args, kwargs)
                return []
            it.contracts["ctparse._ctparse"] = c_ctparse
            it.contracts["ctparse._preprocess_string"] = lambda it2, f2, args, k: UTerm("preprocess", [args[0]], "str")
            return it.call(w.func("ctparse.ctparse_gen"), [P["txt"]], {})

        def ens(it, w, a, r):
            b = a[1].get("bound") or {}
            doc = {"timeout": 1.0, "relative_match_len": 1.0, "max_stack_depth": 10}
            sc = b.get("scorer")
            return [("documented-defaults-reach-the-search", ["C14", "C13"],
                     all(type(b.get(k)) == type(v) and b.get(k) == v for k, v in doc.items())
                     and isinstance(sc, Tok) and sc.name.endswith("_DEFAULT_SCORER"))]
        return FuncUnit("ctparse.ctparse_gen[defaults]", ["ctparse.ctparse_gen"], ["C13", "C14"], setup, call, ens,
                        prop_map={"safety": ["C01"], "frame": ["C12"]})
    out.append(mk_gen_defaults())
    return out


_units_base2 = units


def units(world):  # noqa: F811
    return _units_base2(world) + gen_units(world)


def search_locals(fnode):
    """names of the locals of _ctparse by their ROLE (so that the fragment units survive renames):
    stack (tested by the production `while`), check (the zero-argument call that opens its body), current (the partial
    parse popped from the stack / iterated by the emission loop), stack_table (dict asked with `.get(<x>.prod, ...)`),
    emit_table (dict asked with `.get(<value>, ...)` inside the emission loop), subject / labels (4th / 5th argument of the
    CTParse built for the yield).  Missing roles keep their historical names."""
    names = {"stack": "stack", "check": "t_fun", "current": "s", "stack_table": "stack_prod", "emit_table": "parse_prod",
             "subject": "subject", "labels": "labels"}
    loop = None
    for n in ast.walk(fnode):
        if isinstance(n, ast.While) and isinstance(n.test, ast.Name) and any(
                isinstance(c, ast.Call) and isinstance(c.func, ast.Attribute) and c.func.attr == "pop"
                and isinstance(c.func.value, ast.Name) and c.func.value.id == n.test.id for st in n.body for c in ast.walk(st)):
            loop = n
            break
    if loop is not None:
        names["stack"] = loop.test.id
        for st in loop.body:
            if isinstance(st, ast.Expr) and isinstance(st.value, ast.Call) and isinstance(st.value.func, ast.Name) \
                    and not st.value.args and not st.value.keywords:
                names["check"] = st.value.func.id
                break
        for st in loop.body:
            if isinstance(st, ast.Assign) and isinstance(st.value, ast.Call) and isinstance(st.value.func, ast.Attribute) \
                    and st.value.func.attr == "pop" and len(st.targets) == 1 and isinstance(st.targets[0], ast.Name):
                names["current"] = st.targets[0].id
                break
    emit = None
    for n in ast.walk(fnode):
        if isinstance(n, ast.For) and isinstance(n.iter, ast.Attribute) and n.iter.attr == "prod" and isinstance(n.iter.value, ast.Name) \
                and any(isinstance(y, ast.Yield) for y in ast.walk(n)):
            emit = n
    if emit is not None:
        names["current"] = emit.iter.value.id
        xname = emit.target.id if isinstance(emit.target, ast.Name) else None
        for c in ast.walk(emit):
            if isinstance(c, ast.Call) and isinstance(c.func, ast.Attribute) and c.func.attr == "get" and isinstance(c.func.value, ast.Name) \
                    and c.args and isinstance(c.args[0], ast.Name) and c.args[0].id == xname:
                names["emit_table"] = c.func.value.id
            if isinstance(c, ast.Call) and isinstance(c.func, ast.Name) and c.func.id == "CTParse" and len(c.args) == 5:
                if isinstance(c.args[3], ast.Name):
                    names["subject"] = c.args[3].id
                if isinstance(c.args[4], ast.Name):
                    names["labels"] = c.args[4].id
    for c in ast.walk(fnode):
        if isinstance(c, ast.Call) and isinstance(c.func, ast.Attribute) and c.func.attr == "get" and isinstance(c.func.value, ast.Name) \
                and c.args and isinstance(c.args[0], ast.Attribute) and c.args[0].attr == "prod":
            names["stack_table"] = c.func.value.id
    return names, loop


# ---------------------------------------------------------------------------------------------
# C14(3): the emission block of _ctparse keeps the table "value -> best score emitted so far"
def emission_units(world):
    from pyvc.values import SymMap, ModVal

    def find_emit_loop(fnode):
        for n in ast.walk(fnode):
            if isinstance(n, ast.For) and any(isinstance(y, ast.Yield) for y in ast.walk(n)):
                inner = [m for m in ast.walk(n) if isinstance(m, ast.For) and m is not n and any(isinstance(y, ast.Yield) for y in ast.walk(m))]
                if not inner:
                    return n
        return None

    def mk(is_regex):
        def setup(it, w):
            x = Obj(w.classes["RegexMatch" if is_regex else "Time"], fresh=False, label="x")
            return [x, SymMap("parse_prod"), z3.Real("score_x")]

        def call(it, w, a):
            x, E, sx = a
            f = w.func("ctparse._ctparse")
            loop = find_emit_loop(f.node)
            if loop is None:
                raise Unsupported("emission loop (for ... in s.prod containing the yield) not found")
            fr = Frame(f, None)
            fr.yielded = []
            s = Obj(w.classes["PartialParse"], fresh=False, label="s")
            s.attrs["prod"] = (x,)
            s.attrs["rules"] = Tok("s.rules")
            calls = []

            def score_final(it2, args, k):
                calls.append(tuple(args))
                return sx
            nm, _ = search_locals(f.node)
            fr.vars.update({nm["current"]: s, "txt": Tok("txt"), "ts": Tok("ts"), nm["subject"]: Tok("subject"), nm["labels"]: Tok("labels"),
                            nm["emit_table"]: E, "scorer": ModVal("scorer", {"score_final": Builtin("score_final", score_final)})})
            it.exec_fragment(loop, fr)
            return (fr.yielded, calls, fr)

        def ens(it, w, a, r):
            x, E, sx = a
            yielded, calls, fr = r
            kx = E.key(x)
            out = []
            if is_regex:
                out.append(("pattern-matches-are-not-emitted", ["C14", "C15"], len(yielded) == 0 and E.dom is E.dom0 and E.val is E.val0))
                return out
            better = z3.Or(z3.Not(z3.Select(E.dom0, kx)), z3.Select(E.val0, kx) < sx)
            emitted = len(yielded) == 1
            out.append(("emitted-iff-new-or-strictly-better", ["C14"], better if emitted else z3.Not(better)))
            if emitted:
                out.append(("table-records-the-emitted-score", ["C14"],
                            z3.And(E.dom == z3.Store(E.dom0, kx, z3.BoolVal(True)), E.val == z3.Store(E.val0, kx, sx))))
                y = yielded[0]
                ok = isinstance(y, Obj) and y.cls.name == "CTParse"
                out.append(("candidate-carries-value-trace-score-subject-labels", ["C14", "C10", "C15"],
                            ok and y.attrs.get("resolution") is x and getattr(y.attrs.get("production"), "name", None) == "s.rules"
                            and y.attrs.get("score") is sx and getattr(y.attrs.get("subject"), "name", None) == "subject"
                            and getattr(y.attrs.get("labels"), "name", None) == "labels"))
                out.append(("final-score-of-this-value", ["C14"], len(calls) == 1 and calls[0][3] is x and getattr(calls[0][2], "label", None) == "s"))
            else:
                out.append(("table-unchanged-when-nothing-is-emitted", ["C14"], z3.And(E.dom == E.dom0, E.val == E.val0)))
            return out
        u = FuncUnit("ctparse._ctparse.emission[%s]" % ("RegexMatch" if is_regex else "value"), ["ctparse._ctparse"],
                     ["C14", "C10", "C15"], setup, call, ens, check_frame=False, prop_map={"safety": ["C14"]})
        # a fragment executed in a frame the unit builds: counts only with the behavioural replay (h_emission)
        u.shape_only_clauses = type("All", (), {"__contains__": lambda self, x: True})()
        return u
    return [mk(False), mk(True)]


_units_base3 = units


def units(world):  # noqa: F811
    return _units_base3(world) + emission_units(world)


# ---------------------------------------------------------------------------------------------
# loader.load_default_scorer: both outcomes of "model file present?" give a Scorer instance (C01)
def loader_units(world):
    def mk(present):
        def setup(it, w):
            return [present]

        def call(it, w, a):
            it.contracts = dict(it.contracts)
            f = w.func("loader.load_default_scorer")
            osmod = f.module.globals.get("os")
            saved = osmod.attrs["path"].attrs.get("exists") if hasattr(osmod, "attrs") and "path" in osmod.attrs else None
            osmod.attrs["path"].attrs["exists"] = Builtin("os.path.exists", lambda it2, args, k: present)
            try:
                return it.call(f, [], {})
            finally:
                if saved is None:
                    osmod.attrs["path"].attrs.pop("exists", None)
                else:
                    osmod.attrs["path"].attrs["exists"] = saved

        def ens(it, w, a, r):
            sc = w.classes["Scorer"]
            want = "NaiveBayesScorer" if present else "DummyScorer"
            return [("returns-a-scorer-instance", ["C01"], isinstance(r, Obj) and r.cls.issubclass(sc) and r.cls.name == want)]
        return FuncUnit("loader.load_default_scorer[model file %s]" % ("present" if present else "absent"),
                        ["loader.load_default_scorer"], ["C01", "C12"], setup, call, ens, prop_map={"safety": ["C01"], "frame": ["C12"]})
    return [mk(True), mk(False)]


_units_base4 = units


def units(world):  # noqa: F811
    return _units_base4(world) + loader_units(world)


# ---------------------------------------------------------------------------------------------
# the two built-in fallback scorers: finite scores (C14), total (C01)
def simple_scorer_units(world):
    def mk(cls, meth):
        def setup(it, w):
            sc = Obj(w.classes[cls], fresh=False, label="scorer")
            calls = []
            rng = ModValRng(calls)
            sc.attrs["rng"] = rng
            return [sc, calls]

        def call(it, w, a):
            args = [Tok("txt"), Tok("ts"), Tok("pp")] + ([Tok("prod")] if meth == "score_final" else [])
            return it.call(it.getattr_(a[0], meth), args, {})

        def ens(it, w, a, r):
            if cls == "DummyScorer":
                return [("constant-zero-score", ["C14", "C01"], isinstance(r, float) and r == 0.0)]
            return [("one-random-draw-in-the-unit-interval", ["C14", "C01"], len(a[1]) == 1 and z3.is_expr(r))]
        return FuncUnit("scorer.%s.%s" % (cls, meth), ["scorer.%s.%s" % (cls, meth)], ["C14", "C01", "C12"], setup, call, ens,
                        prop_map={"safety": ["C01"], "frame": ["C12"]})
    return [mk(c, m) for c in ("DummyScorer", "RandomScorer") for m in ("score", "score_final")]


class ModValRng:
    """stand-in for random.Random: random() is a fresh real in [0, 1) (trusted: A-lib)"""

    def __init__(self, calls):
        self.calls = calls


_units_base5 = units


def units(world):  # noqa: F811
    return _units_base5(world) + simple_scorer_units(world)
