"""Units for the entry points: ctparse(), ctparse_gen(), CTParse rendering, _get_labels and the
label/subject prefix of _ctparse."""
import ast
import z3

from pyvc.values import (FuncVal, Builtin, Obj, SOpt, UTerm, Tok, Unsupported, PyRaise, ClassVal, is_z3)
from pyvc.interp import Frame, ReturnSig
from pyvc.logic import And, Or, Not, Implies
from pyvc import symargs
from pyvc.models import DT
from contracts.extra import FuncUnit, _ts, _wf_arg
from contracts.generic import wf_value
from spec import wf as WF

GEN_PARAMS = ["txt", "ts", "timeout", "relative_match_len", "max_stack_depth", "scorer", "latent_time"]


def same_value(it, a, b):
    """is b provably the very value a (identity for tokens/objects, equality for scalars)"""
    if a is b:
        return True
    if isinstance(a, SOpt) and isinstance(b, SOpt):
        return a.is_none is b.is_none and a.val is b.val
    if is_z3(a) or is_z3(b):
        if isinstance(a, (Tok, Obj, SOpt, UTerm)) or isinstance(b, (Tok, Obj, SOpt, UTerm)):
            return False
        return a == b
    if isinstance(a, UTerm):
        return a.same(b)
    if isinstance(a, (bool, int, float, str)) and type(a) == type(b):
        return a == b
    return False


def mk_params(it):
    return {
        "txt": UTerm("input", ["txt"], "str"),
        "ts": SOpt(z3.Bool("ts?none"), Tok("ts")),
        "timeout": z3.Real("timeout"),
        "relative_match_len": z3.Real("relative_match_len"),
        "max_stack_depth": z3.Int("max_stack_depth"),
        "scorer": SOpt(z3.Bool("scorer?none"), Tok("scorer")),
        "latent_time": z3.Bool("latent_time"),
    }


def mk_ctparse_obj(it, w, tag, with_resolution=True):
    cls = w.classes["CTParse"]
    o = Obj(cls, fresh=False, label=tag)
    o.attrs["resolution"] = Tok(tag + ".resolution")
    o.attrs["production"] = Tok(tag + ".production")
    o.attrs["score"] = z3.Real(tag + ".score")
    o.attrs["subject"] = UTerm("input", [tag + ".subject"], "str")
    o.attrs["labels"] = UTerm("input", [tag + ".labels"], "list")
    return o


def pipeline_terms(it, w, txt_term):
    """run the prefix of the real _ctparse (label extraction + subject) on an input without pattern
    matches: -> (labels term, subject term) as the match path computes them"""
    f = w.func("ctparse._ctparse")
    fr = Frame(f, None)
    fr.vars.update({"txt": txt_term, "ts": Tok("ts"), "timeout": 0, "relative_match_len": 1.0,
                    "max_stack_depth": 10, "scorer": Tok("scorer")})
    saved = dict(it.contracts)
    it.contracts = dict(saved)
    it.contracts["ctparse._get_labels"] = lambda it2, f2, a, k: UTerm("labels", [a[0]], "list")
    it.contracts["ctparse._match_regex"] = lambda it2, f2, a, k: []
    it.contracts["ctparse._regex_stack"] = lambda it2, f2, a, k: []
    it.contracts["timers.timeout"] = lambda it2, f2, a, k: Builtin("t_fun", lambda i3, a3, k3: None)
    it.contracts["timers.timeit"] = lambda it2, f2, a, k: Builtin("timed", lambda i3, a3, k3, _f=a[0]: (i3.call(_f, a3, k3), 0.0))
    try:
        body = f.node.body
        tr = [s for s in body if isinstance(s, ast.Try)]
        stmts = tr[0].body if tr else body
        for s in body:
            if s is (tr[0] if tr else None):
                break
            it.exec(s, fr)
        for s in stmts:
            if isinstance(s, ast.While):
                break
            it.exec(s, fr)
    finally:
        it.contracts = saved
    return fr.vars.get("labels"), fr.vars.get("subject")


def units(world):
    out = []

    # ---------------------------------------------------------------- ctparse()
    def mk_ctparse(n, debug, none_elem=False):
        def setup(it, w):
            P = mk_params(it)
            if none_elem:
                stream = [None]
            else:
                stream = [mk_ctparse_obj(it, w, "p%d" % i) for i in range(n)]
            return [P, stream, {}]

        def call(it, w, a):
            P, stream, seen = a
            gen = w.func("ctparse.ctparse_gen")

            def gen_contract(it2, f2, args, kwargs):
                seen["bound"] = it2.bind_args(f2, args, kwargs)
                return list(stream)
            it.contracts = dict(it.contracts)
            it.contracts["ctparse.ctparse_gen"] = gen_contract
            it.contracts["ctparse._preprocess_string"] = lambda it2, f2, args, k: UTerm("preprocess", [args[0]], "str")
            it.contracts["ctparse._get_labels"] = lambda it2, f2, args, k: UTerm("labels", [args[0]], "list")
            f = w.func("ctparse.ctparse")
            return it.call(f, [P["txt"], P["ts"]], {"timeout": P["timeout"], "debug": debug,
                                                     "relative_match_len": P["relative_match_len"],
                                                     "max_stack_depth": P["max_stack_depth"], "scorer": P["scorer"],
                                                     "latent_time": P["latent_time"]})

        def ens(it, w, a, r):
            P, stream, seen = a
            b = seen.get("bound")
            out2 = []
            fwd = b is not None and all(same_value(it, P[k], b.get(k)) for k in GEN_PARAMS)
            if b is not None and not isinstance(fwd, bool):
                fwd = And(*[same_value(it, P[k], b.get(k)) for k in GEN_PARAMS])
            out2.append(("arguments-forwarded-to-the-stream", ["C14", "C03", "C13", "C01"], fwd))
            if debug:
                out2.append(("debug-returns-the-stream", ["C14"], isinstance(r, list) and len(r) == len(stream)
                             and all(x is y for x, y in zip(r, stream))))
                return out2
            if n == 0 or none_elem:
                ok = isinstance(r, Obj) and r.cls.name == "CTParse"
                labels_m, subject_m = pipeline_terms(it, w, UTerm("preprocess", [P["txt"]], "str")) if ok else (None, None)
                out2.append(("empty-stream-gives-empty-resolution", ["C14", "C01"],
                             ok and r.attrs.get("resolution") is None and r.attrs.get("production") is None
                             and r.attrs.get("score") is None))
                out2.append(("subject-is-str-labels-is-list", ["C01"],
                             ok and isinstance(r.attrs.get("subject"), (str, UTerm)) and getattr(r.attrs.get("subject"), "sort", "str") == "str"
                             and isinstance(r.attrs.get("labels"), (list, UTerm)) and getattr(r.attrs.get("labels"), "sort", "list") == "list"))
                out2.append(("no-match-subject-and-labels-as-on-the-match-path", ["C10"],
                             ok and isinstance(subject_m, UTerm) and subject_m.same(r.attrs.get("subject"))
                             and isinstance(labels_m, UTerm) and labels_m.same(r.attrs.get("labels"))))
                return out2
            is_elem = any(r is x for x in stream)
            out2.append(("result-is-a-stream-element", ["C14"], is_elem))
            if is_elem:
                out2.append(("result-has-maximal-score", ["C14"], And(*[x.attrs["score"] <= r.attrs["score"] for x in stream])))
            return out2
        tag = "None-element" if none_elem else "n=%d%s" % (n, ",debug" if debug else "")
        return FuncUnit("ctparse.ctparse[%s]" % tag, ["ctparse.ctparse"], ["C01", "C03", "C10", "C13", "C14", "C12"],
                        setup, call, ens, prop_map={"safety": ["C01"], "frame": ["C12"]})
    for n in (0, 1, 2, 3):
        out.append(mk_ctparse(n, False))
    out.append(mk_ctparse(2, True))
    out.append(mk_ctparse(1, False, none_elem=True))

    # ---------------------------------------------------------------- CTParse.__str__ / __repr__
    def mk_render(shape, meth):
        def setup(it, w):
            cls = w.classes["CTParse"]
            if shape == "match":
                res = _wf_arg(it, w, symargs.mk_time(it, w, "res"))
                args = [res, ("R1", 100, "ruleX"), z3.Real("score"), UTerm("input", ["subject"], "str"),
                        UTerm("input", ["labels"], "list")]
            else:
                args = [None, None, None, UTerm("input", ["subject"], "str"), UTerm("input", ["labels"], "list")]
            return [it.instantiate(cls, args, {})]

        def call(it, w, a):
            return it.call(it.getattr_(a[0], meth), [], {})

        def ens(it, w, a, r):
            return [("renders-to-str", ["C01"], it.typeof(r).name == "str" if hasattr(it.typeof(r), "name") else False)]
        return FuncUnit("ctparse.CTParse.%s[%s]" % (meth, shape), ["ctparse.CTParse.%s" % meth, "ctparse.CTParse.__init__"],
                        ["C01"], setup, call, ens, check_frame=False)
    for shape in ("match", "no-match"):
        for meth in ("__str__", "__repr__"):
            out.append(mk_render(shape, meth))
    return out
