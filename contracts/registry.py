"""All verification units (one per function under contract) keyed by name."""
import collections

RULE_PROPS = {"C01", "C02", "C03", "C04", "C05", "C06", "C07", "C08", "C12", "C15", "C19", "C20"}
HEAVY = {"ruleTimeDuration": 60, "ruleDateInterval": 40, "ruleNamedNumberDuration": 20, "rulePODInterval": 15,
         "ruleDurationInterval": 12, "ruleIntervalConjDuration": 12, "ruleIntervalDuration": 8,
         "ruleDateTimeDateTime": 8}


class RuleUnit:
    kind = "rule"

    def __init__(self, task):
        self.task = task
        self.name = task.qualname
        from contracts.rule_specs import SPECS
        self.props = {"C01", "C02", "C12", "C14", "C15", "C19"}
        # which properties the rule-specific clauses serve is declared in the spec itself; a static
        # superset is enough to select units
        self.props |= SPEC_PROPS.get(task.name, set())
        self.cost = HEAVY.get(task.name, 1)

    def sha(self, world):
        return world.sha(self.task.func)

    def run(self, world, prop, tier):
        from contracts import rules as R
        from pyvc.vcgen import verify_function
        t = self.task
        alien = [s.cls for s in t.argspecs if s.cls not in ("RegexMatch", "Time", "Interval", "Duration")]
        if alien:
            # a pattern element dimension(C) with a class no production ever yields: the rule can never fire
            from pyvc.vcgen import Obligation
            o = Obligation(t.qualname, "cover:rule-can-fire", ["C19"])
            o.kind, o.paths, o.queries = "rule", 1, 1
            o.backend["trivial"] += 1
            o.status = "failed"
            o.detail = "pattern element dimension(%s): no value of the production system is an instance of that class" % alien[0]
            o.no_input_expected = True
            o.cex = {"args": None}
            return ([o] if prop in o.props else []), {"paths": 1}
        R.compute_pred_formula(world, t)
        obs, info = verify_function(
            world, t.qualname, lambda it: R.build_args(it, world, t), lambda it, a: it.call(t.func, a, {}),
            R.rule_ensures(world, t), ["C01"], cover=[("rule-can-fire", lambda a, r: r is not None)],
            prop_map={"safety": ["C01"], "frame": ["C12", "C15", "C14"], "cover": ["C19"]}, only_prop=prop)
        for o in obs:
            o.kind = "rule"
        return obs, info


# properties served by the specific clauses of each rule (static; checked against the clauses at run time)
SPEC_PROPS = collections.defaultdict(set)
for _n, _ps in {
    "ruleToday": "C03", "ruleNow": "C03", "ruleTomorrow": "C03", "ruleAfterTomorrow": "C03", "ruleYesterday": "C03",
    "ruleBeforeYesterday": "C03", "ruleEOM": "C03", "ruleEOY": "C03", "ruleAtDOW": "C03 C20", "ruleNextDOW": "C03",
    "ruleDOWNextWeek": "C03", "ruleLatentDOW": "C03 C04 C20", "ruleNamedDOW": "C03 C04",
    "rulePOD": "C04 C06 C19", "ruleLatentDOM": "C04", "ruleLatentDOY": "C04", "ruleLatentPOD": "C04", "ruleDOWDOM": "C04",
    "ruleDOM1": "C05 C04", "ruleDOM2": "C05 C04", "ruleMonthOrdinal": "C05", "ruleNamedMonth": "C05", "ruleYear": "C05",
    "ruleDOMMonth": "C05 C04 C02", "ruleDOMMonth2": "C05 C04 C02", "ruleMonthDOM": "C05 C04 C02",
    "ruleDDMM": "C05 C04 C02", "ruleMMDD": "C05 C04 C02", "ruleDOYYear": "C05 C02", "ruleDDMMYYYY": "C05 C02",
    "ruleDOWDate": "C05", "ruleDateDOW": "C05", "ruleDateTOD": "C20 C05", "ruleTODDate": "C20 C05",
    "ruleDatePOD": "C20", "rulePODDate": "C20", "ruleAbsorbOnTime": "C20", "ruleAbsorbFromInterval": "C07",
    "ruleHHMM": "C06 C11 C05", "ruleHHMMmilitary": "C05 C06 C11", "ruleHHOClock": "C06", "ruleNamedHour": "C06",
    "ruleMidnight": "C06", "ruleQuarterBeforeHH": "C06", "ruleHalfBeforeHH": "C06", "ruleQuarterAfterHH": "C06",
    "ruleHalfAfterHH": "C06", "ruleTODPOD": "C06", "rulePODTOD": "C06",
    "ruleBeforeTime": "C07", "ruleAfterTime": "C07", "ruleDateDate": "C07", "ruleDOMDate": "C07",
    "ruleDateDOM": "C07 C02", "ruleDOYDate": "C07 C02", "ruleDateTimeDateTime": "C07", "ruleTODTOD": "C07",
    "rulePODPOD": "C07", "ruleDateInterval": "C07 C02", "rulePODInterval": "C07 C02",
    "ruleDigitDuration": "C08 C01", "ruleNamedNumberDuration": "C08", "ruleDurationHalf": "C08",
    "ruleDurationInterval": "C08 C07", "ruleIntervalDuration": "C08 C07", "ruleIntervalConjDuration": "C08 C07",
    "ruleTimeDuration": "C08 C07",
}.items():
    SPEC_PROPS[_n] = set(_ps.split())


def build_units(world):
    from contracts import rules as R
    units = collections.OrderedDict()
    for t in R.discover(world):
        u = RuleUnit(t)
        if u.name in units:        # a second @rule definition with the same function name (C19 reports it)
            u.name = "%s@line%d" % (u.name, t.func.node.lineno)
            t.variant = (t.variant + "," if t.variant else "") + "line%d" % t.func.node.lineno
        # rules producing Interval values serve C07 through the auxiliary invariant
        units[u.name] = u
    for mod in ("contracts.extra", "contracts.c19", "contracts.toplevel", "contracts.c13", "contracts.c15", "contracts.c16", "contracts.c17", "contracts.c11", "contracts.c10", "contracts.bridge", "contracts.edge", "contracts.c12"):
        try:
            m = __import__(mod, fromlist=["units"])
        except ImportError:
            continue
        for u in m.units(world):
            units[u.name] = u
    return units
