"""C16: the scorer is textbook multinomial naive Bayes.  Straight-line algebra over the reals
(log/exp uninterpreted, A-real) is proved on the real functions; the vectoriser is covered by a
bounded, exhaustive small-scope comparison with an independent specification (spec/nb.py)."""
import z3

from pyvc.values import Obj, Tok, UTerm, Builtin, ModVal, Unsupported, PyRaise, SOpt
from pyvc.logic import And, Or, Not, Implies
from contracts.extra import FuncUnit, LemmaUnit

LOG = None


def _log(world):
    return world.logf


def scorer_units(world):
    out = []

    def mk(final):
        def setup(it, w):
            ms, me1, me2 = z3.Int("first.mstart"), z3.Int("first.mend"), z3.Int("last.mend")
            L = z3.Int("len_txt")
            it.assume(z3.And(ms >= 0, ms < me1, me1 <= me2, me2 <= L))      # wf_span of the production in the text
            a0 = Obj(w.classes["Time"], fresh=False, label="first")
            a1 = Obj(w.classes["Time"], fresh=False, label="last")
            a0.attrs.update({"mstart": ms, "mend": me1})
            a1.attrs.update({"mstart": me1, "mend": me2})
            pp = Obj(w.classes["PartialParse"], fresh=False, label="pp")
            pp.attrs.update({"prod": (a0, a1), "rules": (100, 101, "ruleX", "ruleY")})
            x = Obj(w.classes["Time"], fresh=False, label="x")
            pms, pme = z3.Int("x.mstart"), z3.Int("x.mend")
            it.assume(z3.And(pms >= 0, pms < pme, pme <= L))
            x.attrs.update({"mstart": pms, "mend": pme})
            txt = UTerm("input", ["txt"], "str")
            txt.sym_len = L
            return [pp, x, txt, L, {}]

        def call(it, w, a):
            pp, x, txt, L, seen = a
            lp0, lp1 = z3.Real("lp_neg"), z3.Real("lp_pos")

            def plp(it2, args, k):
                seen["X"] = args[0]
                return [(lp0, lp1)]
            model = ModVal("model", {"predict_log_proba": Builtin("predict_log_proba", plp)})
            sc = Obj(w.classes["NaiveBayesScorer"], fresh=False, label="scorer")
            sc.attrs["_model"] = model
            seen["lp"] = (lp0, lp1)
            if final:
                return it.call(it.getattr_(sc, "score_final"), [txt, Tok("ts"), pp, x], {})
            return it.call(it.getattr_(sc, "score"), [txt, Tok("ts"), pp], {})

        def ens(it, w, a, r):
            pp, x, txt, L, seen = a
            lp0, lp1 = seen["lp"]
            log = w.logf
            if final:
                cov = x.attrs["mend"] - x.attrs["mstart"]
                want = (lp1 - lp0) + 1000 * log(z3.ToReal(cov) / z3.ToReal(L))
            else:
                cov = pp.attrs["prod"][-1].attrs["mend"] - pp.attrs["prod"][0].attrs["mstart"]
                want = (lp1 - lp0) + log(z3.ToReal(cov) / z3.ToReal(L))
            X = seen.get("X")
            feats = isinstance(X, list) and len(X) == 1 and X[0] == ["100", "101", "ruleX", "ruleY"]
            return [("score-is-log-odds-plus-log-covered-share", ["C16", "C14", "C09"], r == want if z3.is_expr(r) else False),
                    ("features-are-the-rule-trace", ["C16"], bool(feats))]
        return FuncUnit("nb_scorer.NaiveBayesScorer.%s" % ("score_final" if final else "score"),
                        ["nb_scorer.NaiveBayesScorer.%s" % ("score_final" if final else "score"), "nb_scorer._feature_extractor"],
                        ["C16", "C14", "C09", "C01", "C12"], setup, call, ens,
                        prop_map={"safety": ["C14", "C01", "C16"], "frame": ["C12"]})
    out.append(mk(False))
    out.append(mk(True))
    return out


def estimator_units(world):
    out = []
    V = 3

    def mk_model(it, w):
        m = Obj(w.classes["MultinomialNaiveBayes"], fresh=False, label="model")
        m.attrs["alpha"] = 1.0
        m.attrs["class_prior"] = (z3.Real("prior_neg"), z3.Real("prior_pos"))
        m.attrs["log_likelihood"] = {"negative_class": [z3.Real("lln%d" % i) for i in range(V)],
                                     "positive_class": [z3.Real("llp%d" % i) for i in range(V)]}
        return m

    def mk_predict(shape):
        """shape: tuple of tuples of feature indices per document"""
        def setup(it, w):
            docs = []
            for d, idxs in enumerate(shape):
                docs.append({i: z3.Int("cnt_%d_%d" % (d, i)) for i in idxs})
                for c in docs[-1].values():
                    it.assume(c >= 1)
            return [mk_model(it, w), docs]

        def call(it, w, a):
            return it.call(it.getattr_(a[0], "predict_log_probability"), [a[1]], {})

        def ens(it, w, a, r):
            m, docs = a
            log, exp = w.logf, w.expf
            ok = isinstance(r, list) and len(r) == len(docs)
            cl = []
            want_all = []
            for d, doc in enumerate(docs):
                jn = m.attrs["class_prior"][0] + sum(m.attrs["log_likelihood"]["negative_class"][i] * z3.ToReal(c) for i, c in doc.items())
                jp = m.attrs["class_prior"][1] + sum(m.attrs["log_likelihood"]["positive_class"][i] * z3.ToReal(c) for i, c in doc.items())
                mx = z3.If(jp > jn, jp, jn)
                lse = mx + log(exp(jn - mx) + exp(jp - mx))
                want_all.append((jn - lse, jp - lse))
            goal = And(*[And(r[d][0] == want_all[d][0], r[d][1] == want_all[d][1]) for d in range(len(docs))]) if ok and all(
                isinstance(x, tuple) and len(x) == 2 for x in r) else False
            cl.append(("posterior-is-joint-minus-log-sum-exp-per-document", ["C16", "C17"], goal))
            return cl
        u = FuncUnit("nb_estimator.MultinomialNaiveBayes.predict_log_probability%s" % (list(shape),),
                     ["nb_estimator.MultinomialNaiveBayes.predict_log_probability", "nb_estimator._log_sum_exp"],
                     ["C16", "C17", "C12", "C14"], setup, call, ens, prop_map={"safety": ["C16", "C14"], "frame": ["C12"]})
        u.bounded_desc = "loops over documents and sparse features unrolled for the document shapes %s (feature indices per document), counts and model parameters symbolic" % (list(shape),)
        return u
    for shape in (((),), ((0, 2),), ((1,), (0, 2)), ((0, 1, 2), ())):
        out.append(mk_predict(shape))

    def mk_prior(n):
        def setup(it, w):
            ys = [z3.Int("y%d" % i) for i in range(n)]
            for y in ys:
                it.assume(z3.Or(y == 1, y == -1))
            # documented precondition of fit: both classes present
            it.assume(z3.And(z3.Or(*[y == 1 for y in ys]), z3.Or(*[y == -1 for y in ys])))
            return [ys]

        def call(it, w, a):
            return it.call(w.func("nb_estimator.MultinomialNaiveBayes._construct_log_class_prior"), [a[0]], {})

        def ens(it, w, a, r):
            ys = a[0]
            log = w.logf
            nneg = sum(z3.If(y == -1, 1, 0) for y in ys)
            npos = len(ys) - nneg
            ok = isinstance(r, tuple) and len(r) == 2
            return [("prior-is-(log share of negatives, log share of positives)", ["C16", "C17"],
                     And(r[0] == log(z3.ToReal(nneg) / z3.RealVal(len(ys))), r[1] == log(z3.ToReal(npos) / z3.RealVal(len(ys)))) if ok else False)]
        u = FuncUnit("nb_estimator.MultinomialNaiveBayes._construct_log_class_prior[n=%d]" % n,
                     ["nb_estimator.MultinomialNaiveBayes._construct_log_class_prior"], ["C16", "C17", "C12"],
                     setup, call, ens, prop_map={"safety": ["C16"], "frame": ["C12"]})
        u.bounded_desc = "the counting comprehension is unrolled for exactly %d symbolic labels" % n
        return u
    for n in (2, 3):
        out.append(mk_prior(n))

    def mk_likelihood():
        def setup(it, w):
            # two documents over a vocabulary of V features; the first carries the key V-1 (as the
            # vectoriser guarantees); counts symbolic
            X = [{0: z3.Int("c00"), V - 1: z3.Int("c02")}, {0: z3.Int("c10"), 1: z3.Int("c11")}]
            for d in X:
                for c in d.values():
                    it.assume(c >= 0)
            ys = [z3.Int("y0"), z3.Int("y1")]
            for y in ys:
                it.assume(z3.Or(y == 1, y == -1))
            alpha = z3.Real("alpha")
            it.assume(alpha > 0)
            return [X, ys, alpha]

        def call(it, w, a):
            return it.call(w.func("nb_estimator.MultinomialNaiveBayes._construct_log_likelihood"), a, {})

        def ens(it, w, a, r):
            X, ys, alpha = a
            log = w.logf
            ok = isinstance(r, dict) and set(r) == {"negative_class", "positive_class"} and all(len(v) == V for v in r.values())
            if not ok:
                return [("laplace-smoothed-likelihoods", ["C16", "C17"], False)]
            goal = []
            for cname, cls in (("positive_class", 1), ("negative_class", -1)):
                cnt = [alpha + sum(z3.If(ys[d] == cls, z3.ToReal(X[d].get(i, 0)) if not isinstance(X[d].get(i, 0), int) else z3.RealVal(X[d].get(i, 0)), z3.RealVal(0))
                                   for d in range(2)) for i in range(V)]
                tot = sum(cnt)
                for i in range(V):
                    goal.append(r[cname][i] == log(cnt[i]) - log(tot))
            return [("laplace-smoothed-likelihoods", ["C16", "C17"], And(*goal))]
        u = FuncUnit("nb_estimator.MultinomialNaiveBayes._construct_log_likelihood[2 docs,V=3]",
                     ["nb_estimator.MultinomialNaiveBayes._construct_log_likelihood"], ["C16", "C17", "C12"], setup, call, ens,
                     prop_map={"safety": ["C16"], "frame": ["C12"]})
        u.bounded_desc = "loops unrolled for two documents over a vocabulary of three features; counts, labels and alpha symbolic"
        return u
    out.append(mk_likelihood())
    return out


def nb_lemmas(world):
    log, exp = world.logf, world.expf
    a, b, m, s, c, L1, L2, odds = z3.Reals("a b m s c L1 L2 odds")

    def normalisation():
        # posterior probabilities sum to one:  exp(a - lse) + exp(b - lse) = 1  with lse = m + log(exp(a-m)+exp(b-m))
        S = exp(a - m) + exp(b - m)
        lse = m + log(S)
        x, y = z3.Reals("x y")
        ax = [z3.ForAll([x, y], exp(x - y) * exp(y) == exp(x)),      # exp(x-y) = exp x / exp y
              z3.ForAll([x], exp(x) > 0),
              z3.ForAll([x], z3.Implies(x > 0, exp(log(x)) == x)),
              z3.ForAll([x, y], exp(x + y) == exp(x) * exp(y))]
        inst = [exp(a - lse) * exp(lse) == exp(a), exp(b - lse) * exp(lse) == exp(b), exp(lse) == exp(m) * exp(log(S)),
                exp(log(S)) == S, exp(a - m) * exp(m) == exp(a), exp(b - m) * exp(m) == exp(b), exp(m) > 0, S > 0,
                exp(a - m) > 0, exp(b - m) > 0, exp(lse) > 0]
        return (z3.And(*inst), exp(a - lse) + exp(b - lse) == 1)

    def length_shift():
        # C09(4): for a fixed candidate (odds, covered c) the scores for two text lengths differ by
        # log L2 - log L1, whatever the candidate
        ax = z3.And(log(c / L1) == log(c) - log(L1), log(c / L2) == log(c) - log(L2))
        return (z3.And(c > 0, L1 > 0, L2 > 0, ax), (odds + log(c / L1)) - (odds + log(c / L2)) == log(L2) - log(L1))
    return [("posterior-probabilities-sum-to-one", normalisation), ("length-term-is-a-constant-shift", length_shift)]


def duplication_lemmas(world):
    """C17, the parts of the duplication argument z3 can carry (log only through its monotonicity, instantiated):
    with one more positive document the prior odds do not fall, and for a document made of c copies of one
    feature the smoothed positive likelihood of that feature does not fall.  The general case (several
    features) needs the convexity of log(1 + 1/x): paper step in DESIGN, assumption A-analysis."""
    log = world.logf
    n, N, a, A, c = z3.Reals("n N a A c")

    def mono(x, y):
        return z3.Implies(z3.And(x > 0, x <= y), log(x) <= log(y))

    def prior():
        pre = z3.And(n >= 1, N > n, mono(n / N, (n + 1) / (N + 1)), mono((N - n) / (N + 1), (N - n) / N))
        before = log(n / N) - log((N - n) / N)
        after = log((n + 1) / (N + 1)) - log((N - n) / (N + 1))
        return (pre, after >= before)

    def single_feature():
        # a: smoothed count of the feature in the positive class, A: smoothed total, c >= 1 copies in the document
        pre = z3.And(a > 0, a <= A, c >= 1, mono(a / A, (a + c) / (A + c)))
        return (pre, c * log((a + c) / (A + c)) >= c * log(a / A))
    return [("prior-odds-do-not-fall-with-one-more-positive-document", prior),
            ("likelihood-of-a-one-feature-document-does-not-fall", single_feature)]


class BoundedPipelineUnit:
    """bounded stand-in (never counted as proved): fit/transform/predict of the real pipeline on
    every small training set and query vs. spec/nb.py"""
    kind = "bounded"
    name = "count_vectorizer+pipeline[bounded]"
    qualnames = ["count_vectorizer.CountVectorizer._create_ngrams", "count_vectorizer.CountVectorizer._get_feature_counts", "count_vectorizer.CountVectorizer._build_vocabulary", "count_vectorizer.CountVectorizer._create_feature_matrix", "count_vectorizer.CountVectorizer.transform", "count_vectorizer.CountVectorizer.fit_transform", "pipeline.CTParsePipeline.fit", "pipeline.CTParsePipeline.predict_log_proba", "nb_scorer.train_naive_bayes", "nb_scorer.save_naive_bayes", "nb_scorer.NaiveBayesScorer.from_model_file", "nb_estimator.MultinomialNaiveBayes.fit", "nb_estimator.MultinomialNaiveBayes.predict_log_probability"]
    props = {"C16"}
    cost = 8

    def sha(self, world):
        return "+".join(world.sha(world.func(q)) for q in (
            "count_vectorizer.CountVectorizer._create_ngrams", "count_vectorizer.CountVectorizer._get_feature_counts",
            "count_vectorizer.CountVectorizer._build_vocabulary", "count_vectorizer.CountVectorizer._create_feature_matrix",
            "count_vectorizer.CountVectorizer.transform", "count_vectorizer.CountVectorizer.fit_transform",
            "pipeline.CTParsePipeline.fit", "pipeline.CTParsePipeline.predict_log_proba", "nb_scorer.train_naive_bayes"))

    def run(self, world, prop, tier):
        import json
        import os
        import subprocess
        from pyvc.vcgen import Obligation
        from pyvc import world as W
        env = dict(os.environ, PYTHONPATH=world.repo + os.pathsep + W.VERIF, PYTHONDONTWRITEBYTECODE="1")
        p = subprocess.run([W.VENV_PY, "-W", "ignore", os.path.join(W.VERIF, "replay", "bounded_nb.py"), tier],
                           cwd=world.repo, env=env, capture_output=True, text=True, timeout=3000)
        o = Obligation(self.name, "real-pipeline-equals-textbook-nb-on-small-scope", ["C16"])
        o.kind = "bounded"
        o.bounded = True
        o.paths = 1
        info = {"paths": 1}
        try:
            r = json.loads(p.stdout.strip().splitlines()[-1])
        except Exception:
            o.status, o.detail = "unsupported", "bounded check crashed: " + (p.stderr or p.stdout)[-800:]
            return [o], info
        info["bounded"] = [{"what": self.name, "bound": r["bound"], "cases": r["cases"], "distinct": r["distinct"],
                            "failures": len(r["bad"]), "props": ["C16"]}]
        if r["bad"]:
            o.status = "failed"
            o.detail = "real pipeline differs from textbook NB: %s" % json.dumps(r["bad"][0])[:600]
            o.cex = {"args": {"kind": "bounded", "examples": r["bad"]}}
            o.confirmed_natively = True
        return [o], info


def pipeline_units(world):
    """CTParsePipeline.fit / predict_log_proba: the composition contract, for a pipeline in ANY state (fresh or fitted
    before): fit = estimator.fit(transformer.fit_transform(X), y) and returns the pipeline itself; predict =
    estimator.predict_log_probability(transformer.transform(X)).  Transformer and estimator are stubs that record calls."""
    from pyvc.values import Obj, Tok, Builtin, ModVal

    def mk(meth, fitted):
        def setup(it, w):
            return [{"calls": []}]

        def call(it, w, a):
            seen = a[0]
            rec = lambda name, res: Builtin(name, lambda it2, args, k, _n=name, _r=res: (seen["calls"].append((_n, list(args))), _r)[1])
            est2 = Tok("estimator.fitted")
            tr = Obj(w.classes["CountVectorizer"], fresh=False, label="transformer")
            tr.attrs.update({"vocabulary": ({"a": 0} if fitted else None), "ngram_range": (1, 3),
                             "fit_transform": rec("fit_transform", Tok("Xt.fit")), "transform": rec("transform", Tok("Xt")),
                             "fit": rec("transformer.fit", tr)})
            est = Obj(w.classes["MultinomialNaiveBayes"], fresh=False, label="estimator")
            est.attrs.update({"fit": rec("estimator.fit", est2), "predict_log_probability": rec("predict_log_probability", Tok("scores"))})
            pipe = Obj(w.classes["CTParsePipeline"], fresh=False, label="pipeline")
            pipe.attrs.update({"transformer": tr, "estimator": est})
            seen.update({"pipe": pipe, "X": Tok("X"), "y": Tok("y"), "est2": est2})
            args = [seen["X"], seen["y"]] if meth == "fit" else [seen["X"]]
            return it.call(it.getattr_(pipe, meth), args, {})

        def ens(it, w, a, r):
            seen = a[0]
            calls = seen["calls"]
            if meth == "fit":
                ok = [c[0] for c in calls] == ["fit_transform", "estimator.fit"] and calls[0][1] == [seen["X"]] \
                    and len(calls[1][1]) == 2 and getattr(calls[1][1][0], "name", None) == "Xt.fit" and calls[1][1][1] is seen["y"]
                return [("vocabulary-rebuilt-from-the-given-corpus-then-estimator-fitted-on-its-counts", ["C16", "C17"], bool(ok)),
                        ("keeps-the-fitted-estimator-and-returns-itself", ["C16"], r is seen["pipe"] and seen["pipe"].attrs.get("estimator") is seen["est2"])]
            ok = [c[0] for c in calls] == ["transform", "predict_log_probability"] and calls[0][1] == [seen["X"]] \
                and len(calls[1][1]) == 1 and getattr(calls[1][1][0], "name", None) == "Xt"
            return [("scores-are-the-estimator-on-the-transformed-documents", ["C16", "C14"], bool(ok) and getattr(r, "name", None) == "scores")]
        return FuncUnit("pipeline.CTParsePipeline.%s[%s]" % (meth, "fitted before" if fitted else "fresh"), ["pipeline.CTParsePipeline.%s" % meth],
                        ["C16", "C17", "C14"], setup, call, ens, check_frame=False, prop_map={"safety": ["C16"]})
    return [mk("fit", False), mk("fit", True), mk("predict_log_proba", True)]


def units(world):
    return pipeline_units(world) + [BoundedPipelineUnit()] + scorer_units(world) + estimator_units(world) + [
        LemmaUnit("spec.nb.algebra", ["C16", "C09", "C14"], nb_lemmas(world)),
        LemmaUnit("spec.nb.duplication", ["C17"], duplication_lemmas(world))]
