"""C15: window matching of a rule pattern on a partial production (_match_rule), proved for
sequences of ANY length with loop invariants; rule application (PartialParse.apply_rule)."""
import ast
import z3

from pyvc.values import SymSeq, SymElem, PairSeq, Unsupported, Obj, Tok, Builtin, UTerm
from pyvc.logic import And, Or, Not, Implies
from contracts.extra import FuncUnit


class LoopContract:
    def __init__(self, invariant, variant=None, props=("C15",), hints=None):
        self.invariant = invariant      # (it, frame) -> [(conjunct name, formula)]
        self.variant = variant
        self.props = list(props)
        self.hints = hints              # (it, frame) -> ground instances of assumed quantified facts


def match_rule_unit(world):
    # Q(a, k) stands for rule[k](seq[a + k]): the predicate at offset k of the window starting at a.
    # (Writing it over (window, offset) keeps arithmetic out of the quantifier patterns.)
    Q = z3.Function("Q", z3.IntSort(), z3.IntSort(), z3.BoolSort())
    P = lambda k_, j_: Q(j_ - k_, k_)                                      # rule[k](seq[j])
    M = z3.Function("Match", z3.IntSort(), z3.BoolSort())                 # window starting at a matches
    W = z3.Function("witness", z3.IntSort(), z3.IntSort())                # Skolem: a failing position
    s_len, r_len = z3.Int("s_len"), z3.Int("r_len")
    a, k, j = z3.Ints("a k j")

    def Y(it, fr):
        return it.gen_frame(fr).yielded

    def pos(it):
        return it.ghost["state"]["pos"]

    def common(it, fr):
        y = Y(it, fr)
        i_s = fr.vars["i_s"]
        return [
            ("range", z3.And(i_s >= 0, i_s <= s_len, y.n >= 0)),
            ("sound", z3.ForAll([j], z3.Implies(z3.And(j >= 0, j < y.n),
                                                z3.And(M(y.a[j]), y.b[j] == y.a[j] + r_len, y.a[j] >= 0, y.a[j] < i_s)))),
            ("complete", z3.ForAll([a], z3.Implies(z3.And(a >= 0, a < i_s, M(a)),
                                                   z3.And(pos(it)[a] >= 0, pos(it)[a] < y.n, y.a[pos(it)[a]] == a)))),
            ("ascending", z3.ForAll([j], z3.Implies(z3.And(j >= 0, j + 1 < y.n), y.a[j] < y.a[j + 1]))),
        ]

    def inv_outer(it, fr):
        return common(it, fr)

    def inv_inner(it, fr):
        i_s, i_r, i_start = fr.vars["i_s"], fr.vars["i_r"], fr.vars["i_start"]
        it.last_inner_inv = lambda k_: z3.Implies(z3.And(k_ >= 0, k_ < i_r), Q(i_s, k_))
        return [("position", z3.And(i_start == i_s + i_r, i_r >= 1, i_r <= r_len, i_start <= s_len)),
                ("prefix-holds", z3.ForAll([k], z3.Implies(z3.And(k >= 0, k < i_r), Q(i_s, k))))]

    # the three axioms defining Match, as functions so that ground instances can be handed to the solver
    ax1 = lambda a_, k_: z3.Implies(z3.And(M(a_), k_ >= 0, k_ < r_len), Q(a_, k_))
    ax2 = lambda a_: z3.Implies(M(a_), z3.And(a_ >= 0, a_ + r_len <= s_len))
    ax3 = lambda a_: z3.Implies(z3.And(a_ >= 0, a_ + r_len <= s_len, z3.Not(M(a_))),
                                z3.And(W(a_) >= 0, W(a_) < r_len, z3.Not(Q(a_, W(a_)))))

    def hints_outer(it, fr):
        i0 = fr.vars["i_s"] - 1                 # the window start examined by this iteration
        hs = [ax1(i0, 0), ax2(i0), ax3(i0)]
        i_r = fr.vars.get("i_r")
        if i_r is not None:
            hs.append(ax1(i0, i_r))
            # inner invariant `prefix-holds` at k = witness(i0) (it is assumed on this path when the
            # inner loop was left; when it was never entered the instance is vacuous: guarded by M)
            inner = getattr(it, "last_inner_inv", None)
            if inner is not None:
                hs.append(inner(W(i0)))
        return hs

    contracts = {("ctparse._match_rule", 0): LoopContract(inv_outer, lambda it, fr: s_len - fr.vars["i_s"], hints=hints_outer),
                 ("ctparse._match_rule", 1): LoopContract(inv_inner, lambda it, fr: r_len - fr.vars["i_r"])}

    def configure(it):
        it.loop_contracts = contracts
        it.yield_container = lambda f: PairSeq("Y", n=0)
        it.ghost["state"] = {"pos": z3.Array("pos", z3.IntSort(), z3.IntSort())}

        def apply_elem(it2, f, args, kwargs):
            if f.seq.name == "rule" and len(args) == 1 and isinstance(args[0], SymElem) and args[0].seq.name == "seq":
                return Q(it2.simp(args[0].idx - f.idx), f.idx)
            raise Unsupported("unexpected predicate application")
        it.apply_elem = apply_elem

        def on_yield(it2, genframe, v):
            # ghost code: remember where the window starting at v[0] was put
            it2.ghost["state"]["pos"] = z3.Store(it2.ghost["state"]["pos"], v[0], genframe.yielded.n)
        it.on_yield = on_yield

    def setup(it, w):
        it.assume(z3.And(s_len >= 0, r_len >= 0))
        # definition of Match by two axioms (no nested quantifier): fits and every predicate holds
        it.assume(z3.ForAll([a, k], ax1(a, k)))
        it.assume(z3.ForAll([a], ax2(a)))
        it.assume(z3.ForAll([a], ax3(a)))
        return [SymSeq("seq", s_len), SymSeq("rule", r_len)]

    def call(it, w, args):
        return it.call(w.func("ctparse._match_rule"), args, {})

    def ens(it, w, args, y):
        if not isinstance(y, PairSeq):
            return [("yields-pairs", ["C15"], False)]
        p = it.ghost["state"]["pos"]
        n = y.n
        return [("only-windows-where-every-predicate-holds", ["C15"],
                 z3.ForAll([j], z3.Implies(z3.And(j >= 0, j < n), z3.And(M(y.a[j]), y.b[j] == y.a[j] + r_len)))),
                ("every-matching-window-is-yielded", ["C15"],
                 z3.ForAll([a], z3.Implies(z3.And(M(a), s_len > 0, r_len > 0), z3.And(p[a] >= 0, p[a] < n, y.a[p[a]] == a)))),
                ("in-ascending-order", ["C15"], z3.ForAll([j], z3.Implies(z3.And(j >= 0, j + 1 < n), y.a[j] < y.a[j + 1]))),
                ("nothing-for-empty-sequence-or-rule", ["C15"], z3.Implies(z3.Or(s_len == 0, r_len == 0), n == 0))]
    u = FuncUnit("ctparse._match_rule", ["ctparse._match_rule"], ["C15", "C01"], setup, call, ens, check_frame=False,
                 prop_map={"safety": ["C15", "C01"]})
    u.configure = configure
    u.cost = 5
    return u


def lt_unit(world):
    """PartialParse.__lt__: candidates are ordered by covered length first, score second"""
    def mk(tag):
        o = Obj(world.classes["PartialParse"], fresh=False, label=tag)
        o.attrs.update({"max_covered_chars": z3.Int(tag + ".covered"), "score": z3.Real(tag + ".score"),
                        "prod": (), "rules": ()})
        return o

    def setup(it, w):
        return [mk("a"), mk("b")]

    def call(it, w, a):
        return it.truthy(it.order("<", a[0], a[1]))

    def ens(it, w, a, r):
        ca, cb = a[0].attrs["max_covered_chars"], a[1].attrs["max_covered_chars"]
        sa, sb = a[0].attrs["score"], a[1].attrs["score"]
        want = z3.Or(ca < cb, z3.And(ca == cb, sa < sb))
        return [("ordered-by-coverage-then-score", ["C15", "C20", "C14", "C09"], r == want if z3.is_expr(r) else (z3.BoolVal(r) == want))]
    return FuncUnit("partial_parse.PartialParse.__lt__", ["partial_parse.PartialParse.__lt__"], ["C15", "C20", "C14", "C09", "C12"],
                    setup, call, ens, prop_map={"safety": ["C15"], "frame": ["C12"]})


def apply_rule_units(world):
    """PartialParse.apply_rule on productions of length 1..3 and every window (bounded in the
    length; the function has no loop): the rule gets (ts, *window), the result splices its value in"""
    out = []

    def mk(n, a_, b_, returns_none):
        def setup(it, w):
            items = []
            for i in range(n):
                o = Obj(w.classes["Time"], fresh=False, label="x%d" % i)
                o.attrs.update({"mstart": z3.Int("x%d.mstart" % i), "mend": z3.Int("x%d.mend" % i)})
                items.append(o)
            pp = Obj(w.classes["PartialParse"], fresh=False, label="self")
            pp.attrs.update({"prod": tuple(items), "rules": (100, "ruleA"), "applicable_rules": Tok("applicable"),
                             "max_covered_chars": z3.Int("cov"), "score": z3.Real("score")})
            return [pp, items, {}]

        def call(it, w, a):
            pp, items, seen = a
            res = None
            if not returns_none:
                res = Obj(w.classes["Time"], fresh=True, label="r")
                res.attrs.update({"mstart": z3.Int("r.mstart"), "mend": z3.Int("r.mend")})
            seen["res"] = res

            def rule(it2, args, k):
                seen["args"] = list(args)
                return res
            ts = Tok("ts")
            seen["ts"] = ts
            return it.call(it.getattr_(pp, "apply_rule"), [ts, Builtin("rule", rule), "ruleB", (a_, b_)], {})

        def ens(it, w, a, r):
            pp, items, seen = a
            got = seen.get("args")
            fwd = got is not None and len(got) == 1 + (b_ - a_) and got[0] is seen["ts"] and all(x is y for x, y in zip(got[1:], items[a_:b_]))
            cl = [("rule-gets-the-reference-time-and-exactly-the-window", ["C15", "C03"], bool(fwd))]
            if returns_none:
                cl.append(("none-iff-production-none", ["C15", "C01"], r is None))
                return cl
            ok = isinstance(r, Obj) and r.cls.name == "PartialParse" and r is not pp
            want = tuple(items[:a_]) + (seen["res"],) + tuple(items[b_:])
            cl.append(("none-iff-production-none", ["C15", "C01"], ok))
            if ok:
                p2 = r.attrs.get("prod")
                cl.append(("result-replaces-the-window-by-the-value", ["C15"],
                           isinstance(p2, tuple) and len(p2) == len(want) and all(x is y for x, y in zip(p2, want))))
                cl.append(("trace-extended-by-the-rule-name", ["C15"], r.attrs.get("rules") == (100, "ruleA", "ruleB")))
                # termination measure of B.4/C01: a window of two or more items makes the production shorter
                cl.append(("production-never-grows-and-shrinks-for-windows-of-two-or-more", ["C01", "C15"],
                           isinstance(p2, tuple) and len(p2) == n - (b_ - a_) + 1))
                cl.append(("applicable-rules-inherited", ["C15"], r.attrs.get("applicable_rules") is pp.attrs["applicable_rules"]))
                cl.append(("covered-length-of-the-new-production", ["C15", "C09"],
                           r.attrs.get("max_covered_chars") == want[-1].attrs["mend"] - want[0].attrs["mstart"]))
                cl.append(("receiver-unchanged", ["C15", "C12"], pp.attrs["prod"] == tuple(items) and pp.attrs["rules"] == (100, "ruleA")))
                # second half of the no-alias invariant: the items of a production are pairwise distinct objects if
                # they were before and the rule's value is a new object (wrapper clause result-is-none-of-the-arguments);
                # base case: the initial productions are tuples of distinct pattern matches (_regex_stack, strictly
                # increasing indices into a list built from a set)
                cl.append(("items-stay-pairwise-distinct-objects", ["C15", "C12"],
                           isinstance(p2, tuple) and all(p2[i] is not p2[j] for i in range(len(p2)) for j in range(i + 1, len(p2)))))
            return cl
        return FuncUnit("partial_parse.PartialParse.apply_rule[n=%d,window=%d:%d,%s]" % (n, a_, b_, "None" if returns_none else "value"),
                        ["partial_parse.PartialParse.apply_rule", "partial_parse.PartialParse.__init__"],
                        ["C15", "C12", "C03", "C09", "C01"], setup, call, ens, prop_map={"safety": ["C15", "C01"], "frame": ["C12", "C15"]})
    for n in (1, 2, 3):
        for a_ in range(n):
            for b_ in range(a_ + 1, n + 1):
                out.append(mk(n, a_, b_, False))
    out.append(mk(2, 0, 1, True))
    return out


def regex_stack_units(world):
    """_regex_stack: all maximal gap-free sequences, each once.  BOUNDED in the number of matches
    (n <= 4) with a fully symbolic adjacency relation; for n = 2 the real nested get_m_dist is executed
    (overlap test + 'gap is white space only')"""
    import itertools
    out = []

    def mk(n, real_dist):
        def setup(it, w):
            ms = []
            for i in range(n):
                o = Obj(w.classes["RegexMatch"], fresh=False, label="m%d" % i)
                o.attrs.update({"mstart": z3.Int("m%d.mstart" % i), "mend": z3.Int("m%d.mend" % i), "id": 100 + i})
                it.assume(z3.And(o.attrs["mstart"] >= 0, o.attrs["mstart"] < o.attrs["mend"]))
                ms.append(o)
            for x, y in zip(ms, ms[1:]):      # sorted by (mstart, mend) as _match_regex returns them
                it.assume(z3.Or(x.attrs["mstart"] < y.attrs["mstart"],
                                z3.And(x.attrs["mstart"] == y.attrs["mstart"], x.attrs["mend"] <= y.attrs["mend"])))
            return [ms, {"iters": 0, "adj": {}}]

        def call(it, w, a):
            ms, seen = a
            txt = UTerm("input", ["txt"], "str")
            seen["txt"] = txt
            if not real_dist:
                it.contracts = dict(it.contracts)

                def dist(it2, f2, args, k):
                    i, j = ms.index(args[0]), ms.index(args[1])
                    b = z3.Bool("adj_%d_%d" % (i, j))
                    seen["adj"][(i, j)] = b
                    return z3.If(b, 1, 0)
                it.contracts["ctparse._regex_stack.get_m_dist"] = dist

            def tick(it2, args, k):
                seen["iters"] += 1
                return None
            return it.call(w.func("ctparse._regex_stack"), [txt, ms, Builtin("on_do_iter", tick)], {})

        def ens(it, w, a, r):
            ms, seen = a
            if real_dist:
                # adjacency as the property defines it: no overlap and only white space in between
                gap = UTerm("slice", [seen["txt"], ms[0].attrs["mend"], ms[1].attrs["mstart"], None], "str")
                # the term the code must have tested: <compiled \s*>.fullmatch(gap)
                cand = [t for t in getattr(it, "truthy_terms", [])]
                adj = {(0, 1): None}
            def A(i, j):
                if real_dist:
                    return seen["adj_real"]
                return seen["adj"].get((i, j), z3.Bool("adj_%d_%d" % (i, j)))
            ok = isinstance(r, list) and all(isinstance(t, tuple) for t in r)
            if not ok:
                return [("returns-sequences", ["C15"], False)]
            idx = [tuple(ms.index(x) for x in t) for t in r]
            cl = [("each-sequence-once", ["C15"], len(set(idx)) == len(idx)),
                  # base case of the no-alias invariant of productions: no match object twice in a sequence
                  ("strictly-increasing-match-indices", ["C15", "C12"], all(all(a < b for a, b in zip(t, t[1:])) for t in idx))]
            goals = []
            if not real_dist:
                for k in range(1, n + 1):
                    for t in itertools.combinations(range(n), k):
                        path = z3.And(*[A(t[i], t[i + 1]) for i in range(len(t) - 1)]) if len(t) > 1 else z3.BoolVal(True)
                        first = z3.And(*[z3.Not(A(p, t[0])) for p in range(t[0])]) if t[0] > 0 else z3.BoolVal(True)
                        last = z3.And(*[z3.Not(A(t[-1], q)) for q in range(t[-1] + 1, n)]) if t[-1] < n - 1 else z3.BoolVal(True)
                        want = z3.And(path, first, last)
                        goals.append(want if t in idx else z3.Not(want))
                cl.append(("exactly-the-maximal-gap-free-sequences", ["C15"], z3.And(*goals)))
                cl.append(("deadline-callback-once-per-expansion", ["C13"], seen["iters"] >= len(idx)))
            return cl
        u = FuncUnit("ctparse._regex_stack[n=%d%s]" % (n, ",real get_m_dist" if real_dist else ""), ["ctparse._regex_stack"],
                     ["C15", "C13", "C12"], setup, call, ens, prop_map={"safety": ["C15", "C01"], "frame": ["C12"]})
        u.bounded_desc = "the while loop over the explicit stack is unrolled for exactly %d pattern matches; the adjacency relation is fully symbolic" % n
        return u
    for n in (0, 1, 2, 3, 4):
        out.append(mk(n, False))
    return out


class GapUnit:
    """get_m_dist (nested in _regex_stack): 'no relevant gap' means no overlap and only white space
    between the two matches.  Executed on two symbolic matches over abstract text; the separator
    pattern's language is compared with 'any run of white space' (RegLan equivalence)."""
    kind = "gap"
    name = "ctparse._regex_stack.get_m_dist"
    qualnames = ["ctparse._regex_stack"]
    props = {"C15"}
    cost = 1

    def sha(self, world):
        return world.sha(world.func("ctparse._regex_stack"))

    def run(self, world, prop, tier):
        from pyvc.vcgen import Obligation, explore
        from pyvc.regexmodel import PatternModel, WS_CHARS
        obs = []

        def ob(clause, ok, detail="", kindc=None):
            o = Obligation(self.name, clause, ["C15"])
            o.kind = "gap"
            o.paths = o.queries = 1
            o.backend["z3"] += 1
            if not ok:
                o.status, o.detail = "failed", detail
                o.cex = {"args": {"kind": "gap"}}
                o.shape_only = True
            obs.append(o)
        f = world.func("ctparse._regex_stack")
        m0 = Obj(world.classes["RegexMatch"], fresh=False, label="m0")
        m1 = Obj(world.classes["RegexMatch"], fresh=False, label="m1")
        for i, o in enumerate((m0, m1)):
            o.attrs.update({"mstart": z3.Int("m%d.mstart" % i), "mend": z3.Int("m%d.mend" % i), "id": 100 + i})
        txt = UTerm("input", ["txt"], "str")

        def setup(it):
            it.assume(z3.And(m0.attrs["mstart"] >= 0, m0.attrs["mstart"] < m0.attrs["mend"], m1.attrs["mstart"] < m1.attrs["mend"],
                             m0.attrs["mstart"] <= m1.attrs["mstart"]))
            return [txt, [m0, m1]]
        res, stats = explore(world, setup, lambda it, a: it.call(f, a, {}))
        # classify the paths: which condition leads to one joint sequence
        joint, split = [], []
        shapes_ok = True
        for r in res:
            if r.kind != "return":
                ob("total", False, "%s: %s" % (r.kind, r.value))
                return obs, {"paths": stats["paths"]}
            extra = r.it.pc[r.it.n_setup_pc:]
            is_joint = len(r.value) == 1 and len(r.value[0]) == 2
            (joint if is_joint else split).append(z3.And(*extra) if extra else z3.BoolVal(True))
            if is_joint:
                shapes_ok = shapes_ok and r.value[0][0] is m0 and r.value[0][1] is m1
            else:
                # not adjacent (overlap or a gap): each match is a sequence of its own, none is lost, none twice
                shapes_ok = shapes_ok and len(r.value) == 2 and all(isinstance(t, tuple) and len(t) == 1 for t in r.value) \
                    and {id(t[0]) for t in r.value} == {id(m0), id(m1)}
        ob("two-matches-give-one-joint-sequence-or-two-single-ones", shapes_ok,
           "for two matches the result is neither [(m0, m1)] nor the two single sequences (a match is lost or repeated)")
        tv = [d for d in set(str(x) for c in joint + split for x in _bools(c)) if d.startswith("truthy!")]
        ob("one-white-space-test-decides", len(tv) == 1, "expected exactly one uninterpreted test (the separator match), found %s" % tv)
        if len(tv) == 1:
            B = z3.Bool(tv[0])
            want = z3.And(m1.attrs["mstart"] >= m0.attrs["mend"], B)
            s = z3.Solver()
            s.add(z3.And(m0.attrs["mstart"] >= 0, m0.attrs["mstart"] < m0.attrs["mend"], m1.attrs["mstart"] < m1.attrs["mend"],
                         m0.attrs["mstart"] <= m1.attrs["mstart"]))
            s.add(z3.Or(*joint) != want if joint else want)
            ob("adjacent-iff-no-overlap-and-separator-matches-the-gap", s.check() == z3.unsat,
               "two matches are put in one sequence under a different condition than 'm2.mstart >= m1.mend and the separator matches the text between them'")
        # the separator constant: fullmatch of a pattern whose language is 'any run of white space'
        import ast
        pats = [n for n in ast.walk(f.node) if isinstance(n, ast.Call) and isinstance(n.func, ast.Attribute) and n.func.attr == "compile"
                and n.args and isinstance(n.args[0], ast.Constant)]
        uses_full = any(isinstance(n, ast.Call) and isinstance(n.func, ast.Attribute) and n.func.attr == "fullmatch" for n in ast.walk(f.node))
        okp = False
        detail = "no separator pattern constant / fullmatch call found"
        if len(pats) == 1 and uses_full:
            try:
                L = PatternModel(0, pats[0].args[0].value, {}, ignorecase=False).reglan()
                ws = z3.Star(z3.Union(*[z3.Re(z3.StringVal(c)) for c in WS_CHARS]))
                w = z3.String("w")
                s = z3.Solver()
                s.add(z3.InRe(w, L) != z3.InRe(w, ws))
                okp = s.check() == z3.unsat
                detail = "separator pattern %r does not denote 'any run of white space'" % pats[0].args[0].value
            except Exception as e:
                detail = str(e)
        ob("gap-may-be-any-run-of-white-space", okp, detail)
        return obs, {"paths": stats["paths"], "assumptions": ["the separator test is the truth value of <pattern>.fullmatch(txt[m1.mend:m2.mstart]) (A-regex)"]}


def _bools(e):
    out = []
    if z3.is_const(e) and z3.is_bool(e) and e.decl().kind() == z3.Z3_OP_UNINTERPRETED:
        out.append(e)
    for c in e.children():
        out.extend(_bools(c))
    return out


class BoundedSearchUnit:
    """bounded stand-ins for the pre-filter and for _match_regex (see replay/bounded_search.py)"""
    kind = "bounded"
    name = "partial_parse._seq_match+ctparse._match_regex[bounded]"
    qualnames = ["partial_parse._seq_match", "partial_parse.PartialParse._filter_rules", "ctparse._match_regex"]
    props = {"C15"}
    cost = 3

    def sha(self, world):
        return "+".join(world.sha(world.func(q)) for q in ("partial_parse._seq_match", "partial_parse.PartialParse._filter_rules",
                                                            "ctparse._match_regex"))

    def run(self, world, prop, tier):
        import json
        import os
        import subprocess
        from pyvc.vcgen import Obligation
        from pyvc import world as W
        env = dict(os.environ, PYTHONPATH=world.repo + os.pathsep + W.VERIF, PYTHONDONTWRITEBYTECODE="1")
        p = subprocess.run([W.VENV_PY, "-W", "ignore", os.path.join(W.VERIF, "replay", "bounded_search.py"), tier],
                           cwd=world.repo, env=env, capture_output=True, text=True, timeout=3000)
        o = Obligation(self.name, "pre-filter-loses-no-rule-and-every-match-is-reported", ["C15"])
        o.kind = "bounded"
        o.bounded = True
        o.paths = 1
        info = {"paths": 1}
        try:
            r = json.loads(p.stdout.strip().splitlines()[-1])
        except Exception:
            o.status, o.detail = "unsupported", "bounded check crashed: " + (p.stderr or p.stdout)[-800:]
            return [o], info
        info["bounded"] = [{"what": self.name, "bound": r["bound"], "cases": r["cases"], "distinct": r["distinct"],
                            "failures": len(r["bad"]), "props": ["C15"]}]
        if r["bad"]:
            o.status = "failed"
            o.detail = json.dumps(r["bad"][0])[:600]
            o.cex = {"args": {"kind": "bounded", "examples": r["bad"]}}
            o.confirmed_natively = True
        return [o], info


class DeriveUnit:
    """bounded stand-in for C15's statement about the WHOLE search (replay/bounded_derive.py): streamed candidates vs. the
    naive closure of rule applications, for five scorers, without and with a depth limit"""
    kind = "bounded"
    name = "ctparse._ctparse[bounded reference search]"
    qualnames = ["ctparse._ctparse", "ctparse.ctparse_gen", "partial_parse.PartialParse.apply_rule", "partial_parse.PartialParse._filter_rules",
                 "partial_parse._seq_match", "ctparse._match_rule", "ctparse._regex_stack", "ctparse._match_regex"]
    props = {"C15"}
    cost = 9

    def sha(self, world):
        return "+".join(world.sha(world.func(q)) for q in self.qualnames)

    def run(self, world, prop, tier):
        import json
        import os
        import subprocess
        from pyvc.vcgen import Obligation
        from pyvc import world as W
        env = dict(os.environ, PYTHONPATH=world.repo + os.pathsep + W.VERIF, PYTHONDONTWRITEBYTECODE="1")
        seed = os.environ.get("VERIF_SEED", "0") or "0"
        p = subprocess.run([W.VENV_PY, "-W", "ignore", os.path.join(W.VERIF, "replay", "bounded_derive.py"), tier, seed],
                           cwd=world.repo, env=env, capture_output=True, text=True, timeout=6000)
        o = Obligation(self.name, "streamed-candidates-are-exactly-what-the-rules-license", ["C15"])
        o.kind, o.bounded, o.paths = "bounded", True, 1
        info = {"paths": 1}
        try:
            r = json.loads(p.stdout.strip().splitlines()[-1])
        except Exception:
            o.status, o.detail = "unsupported", "bounded check crashed: " + (p.stderr or p.stdout)[-800:]
            return [o], info
        info["bounded"] = [{"what": self.name, "bound": r["bound"], "cases": r["cases"], "distinct": r["distinct"], "failures": r["n_bad"],
                            "texts_skipped_because_the_closure_is_too_large": r["skipped_closure_too_large"], "props": ["C15"]}]
        if r["bad"]:
            o.status = "failed"
            o.detail = json.dumps(r["bad"][0], ensure_ascii=False)[:600]
            o.cex = {"args": {"kind": "bounded", "examples": r["bad"][:5]}}
            o.confirmed_natively = True
        return [o], info


def from_regex_matches_unit(world):
    """PartialParse.from_regex_matches: fresh partial parse over exactly the given matches, trace = their
    ids, applicable rules = a sub-dictionary of the rule base; nothing outside the call is written"""
    def setup(it, w):
        ms = []
        for i, rid in enumerate((100, 101)):
            o = Obj(w.classes["RegexMatch"], fresh=False, label="m%d" % i)
            o.attrs.update({"_attrs": ["mstart", "mend", "id"], "mstart": 4 * i, "mend": 4 * i + 3, "id": rid})
            ms.append(o)
        return [tuple(ms), {}]

    def call(it, w, a):
        ms, seen = a
        rm = w.modules["ctparse.rule"]
        mk = lambda name, arg: it.call(rm.globals[name], [arg], {})
        rules = {"ruleA": (Tok("fA"), [mk("regex_match", 100), mk("predicate", "isDOM")]),
                 "ruleB": (Tok("fB"), [mk("predicate", "isDOM"), mk("regex_match", 102)]),
                 "ruleC": (Tok("fC"), [mk("regex_match", 100), mk("dimension", w.classes["Time"]), mk("regex_match", 101)]),
                 "ruleD": (Tok("fD"), [mk("predicate", "isDOW")])}
        seen["rules"] = rules
        pm = w.modules["ctparse.partial_parse"]
        old = pm.globals.get("global_rules")
        pm.globals["global_rules"] = rules
        w.global_container_ids.add(id(rules))
        try:
            cls = w.classes["PartialParse"]
            return it.call(it.getattr_(cls, "from_regex_matches"), [ms], {})
        finally:
            pm.globals["global_rules"] = old
            w.global_container_ids.discard(id(rules))

    def ens(it, w, a, r):
        ms, seen = a
        ok = isinstance(r, Obj) and r.cls.name == "PartialParse" and r.fresh
        ar = r.attrs.get("applicable_rules") if ok else None
        return [("partial-parse-over-exactly-the-matches", ["C15"], ok and r.attrs.get("prod") is ms and r.attrs.get("rules") == (100, 101)),
                ("applicable-rules-are-rules-of-the-base", ["C15", "C12"],
                 isinstance(ar, dict) and ar is not seen["rules"] and all(k in seen["rules"] and v is seen["rules"][k] for k, v in ar.items())),
                ("pre-filter-keeps-what-can-still-match", ["C15"], isinstance(ar, dict) and "ruleA" in ar and "ruleD" in ar and "ruleB" not in ar),
                ("rule-base-unchanged", ["C12", "C15"], set(seen["rules"]) == {"ruleA", "ruleB", "ruleC", "ruleD"})]
    return FuncUnit("partial_parse.PartialParse.from_regex_matches", ["partial_parse.PartialParse.from_regex_matches",
                    "partial_parse.PartialParse._filter_rules", "partial_parse._seq_match", "timers.timeit"],
                    ["C15", "C12", "C01"], setup, call, ens, prop_map={"safety": ["C15", "C01"], "frame": ["C12", "C15"]})


class PredicateUnit:
    """the pattern elements of a rule: regex_match(id), dimension(C), predicate(name) and the Time /
    Interval properties they read mean what the rule contracts take them to mean"""
    kind = "lemma"
    name = "rule.regex_match+dimension+predicate"
    props = {"C15", "C19", "C02"}
    qualnames = ["rule.regex_match", "rule.dimension", "rule.predicate", "types.Artifact._hasOnly", "types.Artifact._hasAtLeast"]
    cost = 2

    def sha(self, world):
        return "+".join(world.sha(world.func(q)) for q in self.qualnames)

    def run(self, world, prop, tier):
        from pyvc.vcgen import Obligation, merged_formula
        from pyvc import symargs
        from pyvc.interp import Interp
        from spec.views import only, atleast, fld, opt_obj
        from pyvc.logic import And as A, Or as O, Not as N
        obs = []

        def ob(clause, ok, detail=""):
            o = Obligation(self.name, clause, ["C15", "C19", "C02"])
            o.kind = "lemma"
            o.paths = o.queries = 1
            o.backend["z3"] += 1
            if ok is not True:
                o.status = "failed" if ok is False else "undecided"
                o.detail = detail
                o.no_input_expected = True
            obs.append(o)

        def equivalent(setup, fn, spec_fn, label):
            """forall arguments: truthy(real code) <=> spec"""
            try:
                f_real = merged_formula(world, setup, fn)
            except Exception as e:
                ob(label, None, "cannot evaluate: %s" % e)
                return
            it = Interp(world)
            args = setup(it)
            sp = spec_fn(args)
            s = z3.Solver()
            s.set("timeout", 20000)
            for c in it.pc:
                s.add(c)
            s.add(z3.Not(z3.BoolVal(f_real) if isinstance(f_real, bool) else f_real) != z3.Not(z3.BoolVal(sp) if isinstance(sp, bool) else sp))
            r = s.check()
            ob(label, True if r == z3.unsat else (False if r == z3.sat else None),
               "the real predicate and its meaning in the contracts differ" + (": %s" % s.model() if r == z3.sat else ""))
        rm = world.modules["ctparse.rule"]
        mk = lambda it, name, arg: it.call(rm.globals[name], [arg], {})
        # Time properties used as rule predicates
        TIME = {"isDOM": lambda t: only(t, "day"), "isMonth": lambda t: only(t, "month"), "isDOW": lambda t: only(t, "DOW"),
                "isPOD": lambda t: only(t, "POD"), "isYear": lambda t: only(t, "year"), "isDOY": lambda t: only(t, "month", "day"),
                "isDate": lambda t: only(t, "year", "month", "day"), "isHour": lambda t: only(t, "hour"),
                "isTOD": lambda t: O(only(t, "hour"), only(t, "hour", "minute")),
                "isDateTime": lambda t: O(only(t, "year", "month", "day", "hour"), only(t, "year", "month", "day", "hour", "minute")),
                "hasDate": lambda t: atleast(t, "year", "month", "day"), "hasDOY": lambda t: atleast(t, "month", "day"),
                "hasDOW": lambda t: atleast(t, "DOW"), "hasTime": lambda t: atleast(t, "hour"), "hasPOD": lambda t: atleast(t, "POD")}
        used = sorted({v for n, ps in world.consts["registry"] for k, v in ps if k == "predicate"})
        for pname in sorted(set(TIME) | set(used)):
            if pname in ("isDateInterval", "isTimeInterval"):
                continue
            if pname not in TIME:
                ob("predicate[%s]-has-a-stated-meaning" % pname, False, "rule base uses predicate %r for which the contracts state no meaning" % pname)
                continue
            equivalent(lambda it: [symargs.mk_time(it, world, "t")],
                       lambda it, a, _p=pname: it.call(mk(it, "predicate", _p), [a[0]], {}),
                       lambda a, _p=pname: TIME[_p](a[0]), "predicate[%s]-means-its-field-pattern" % pname)

        def both(i, f):
            fn, fo = opt_obj(fld(i, "t_from"))
            tn, to = opt_obj(fld(i, "t_to"))
            return A(N(fn), N(tn), f(fo), f(to))
        for pname, f in (("isDateInterval", TIME["isDate"]), ("isTimeInterval", TIME["isTOD"])):
            equivalent(lambda it: [symargs.mk_interval(it, world, "i")],
                       lambda it, a, _p=pname: it.call(mk(it, "predicate", _p), [a[0]], {}),
                       lambda a, _f=f: both(a[0], _f), "predicate[%s]-means-both-ends" % pname)
        # a misspelt predicate is silently false (getattr default): documented behaviour the cover obligation relies on
        equivalent(lambda it: [symargs.mk_time(it, world, "t")], lambda it, a: it.call(mk(it, "predicate", "isNoSuchThing"), [a[0]], {}),
                   lambda a: False, "unknown-predicate-is-false")
        # dimension(C)
        for cname, argmk, want in (("Time", symargs.mk_time, True), ("Interval", symargs.mk_time, False), ("Duration", symargs.mk_duration, True),
                                   ("Interval", symargs.mk_interval, True)):
            tag = "dimension[%s]-on-%s" % (cname, argmk.__name__[3:])
            equivalent(lambda it, _m=argmk: [_m(it, world, "x")], lambda it, a, _c=cname: it.call(mk(it, "dimension", world.classes[_c]), [a[0]], {}),
                       lambda a, _w=want if argmk.__name__[3:].capitalize() == cname or not want else want: _w, tag)
        # regex_match(id)
        rid = z3.Int("rid")

        def setup_rm(it):
            o = symargs.mk_regexmatch(it, world, min(world.patterns), "m")
            o.attrs["id"] = z3.Int("m.id")
            return [o]
        equivalent(setup_rm, lambda it, a: it.call(mk(it, "regex_match", rid), [a[0]], {}), lambda a: a[0].attrs["id"] == rid,
                   "regex_match-is-a-match-of-that-pattern-id")
        equivalent(lambda it: [symargs.mk_time(it, world, "t")], lambda it, a: it.call(mk(it, "regex_match", rid), [a[0]], {}),
                   lambda a: False, "regex_match-rejects-other-values")
        return obs, {"paths": len(obs)}


def units(world):
    return [match_rule_unit(world), lt_unit(world), GapUnit(), BoundedSearchUnit(), DeriveUnit(), from_regex_matches_unit(world), PredicateUnit()] + apply_rule_units(world) + regex_stack_units(world)


# ---------------------------------------------------------------------------------------------
# one iteration of the production loop of _ctparse, from an arbitrary state (loop-body contract)
class _AllClauses:
    def __contains__(self, x):
        return True


FRAGMENT_CLAUSES = _AllClauses()


def production_step_units(world):
    from pyvc.values import SymMap, ModVal
    from pyvc.interp import Frame

    def find_loop(fnode):
        for n in ast.walk(fnode):
            if isinstance(n, ast.While) and isinstance(n.test, ast.Name) and n.test.id == "stack":
                return n
        return None

    def mk(new_kind, depth):
        """new_kind: what the single rule application yields: 'none' | 'value'; depth: max_stack_depth"""
        def pp(w, tag):
            o = Obj(w.classes["PartialParse"], fresh=False, label=tag)
            o.attrs.update({"max_covered_chars": z3.Int(tag + ".covered"), "score": z3.Real(tag + ".score"), "prod": Tok(tag + ".prod"),
                            "rules": Tok(tag + ".rules"), "applicable_rules": {}})
            return o

        def setup(it, w):
            s_top = pp(w, "s")
            x = Obj(w.classes["Time"], fresh=False, label="x")
            s_top.attrs["prod"] = (x,)
            rule_f = Tok("ruleF")
            s_top.attrs["applicable_rules"] = {"ruleA": (rule_f, [Tok("pred")])}
            rest = [pp(w, "r0"), pp(w, "r1")]
            # the stack is kept sorted (invariant of the loop): r0 <= r1 <= s
            lt = lambda a, b: z3.Or(a.attrs["max_covered_chars"] < b.attrs["max_covered_chars"],
                                    z3.And(a.attrs["max_covered_chars"] == b.attrs["max_covered_chars"], a.attrs["score"] < b.attrs["score"]))
            it.assume(z3.And(z3.Not(lt(rest[1], rest[0])), z3.Not(lt(s_top, rest[1]))))
            return [s_top, rest, SymMap("stack_prod"), z3.Real("new_score"), {"calls": [], "tfun": 0}]

        def call(it, w, a):
            s_top, rest, SP, ns, seen = a
            f = w.func("ctparse._ctparse")
            from contracts.toplevel import search_locals
            nm, loop = search_locals(f.node)
            if loop is None:
                raise Unsupported("production loop (`while <stack>:` whose body pops from it) not found")
            fr = Frame(f, None)
            fr.yielded = []
            new_pp = None
            if new_kind == "value":
                new_pp = pp(w, "n")
                new_pp.fresh = True
                new_pp.attrs["prod"] = Tok("n.prod")
                new_pp.attrs["score"] = 0.0
            seen["new"] = new_pp
            it.contracts = dict(it.contracts)
            def match_rule(it2, f2, args, k):
                seen["calls"].append(("match_rule", args))
                return [(0, 1)]
            it.contracts["ctparse._match_rule"] = match_rule

            def apply_rule(it2, f2, args, k):
                seen["calls"].append(("apply_rule", args))
                return new_pp
            it.contracts["partial_parse.PartialParse.apply_rule"] = apply_rule

            def score(it2, args, k):
                seen["calls"].append(("score", args))
                return ns

            def score_final(it2, args, k):
                seen["calls"].append(("score_final", args))
                return z3.Real("final_score")

            def t_fun(it2, args, k):
                seen["tfun"] += 1
                seen["calls"].append(("t_fun", ()))
                return None
            stack = rest + [s_top]
            seen["stack0"] = list(stack)
            fr.vars.update({nm["stack"]: stack, nm["check"]: Builtin("t_fun", t_fun), "ts": Tok("ts"), "txt": Tok("txt"),
                            "scorer": ModVal("scorer", {"score": Builtin("score", score), "score_final": Builtin("score_final", score_final)}),
                            nm["stack_table"]: SP, nm["emit_table"]: SymMap("parse_prod"), "max_stack_depth": depth,
                            nm["subject"]: Tok("subject"), nm["labels"]: Tok("labels")})
            seen["stack_name"] = nm["stack"]
            # exactly one iteration of the loop body
            it.exec_fragment(loop.body, fr)
            return (fr.vars[nm["stack"]], fr.yielded)

        def ens(it, w, a, r):
            s_top, rest, SP, ns, seen = a
            stack, yielded = r
            new_pp = seen["new"]
            calls = [c[0] for c in seen["calls"]]
            out = [("deadline-check-before-any-work", ["C13", "C15"], calls[:1] == ["t_fun"] and seen["tfun"] == 1),
                   ("rule-applied-with-reference-time-rule-name-and-window", ["C15", "C03"],
                    any(c[0] == "apply_rule" and c[1][0] is s_top and getattr(c[1][1], "name", None) == "ts"
                        and getattr(c[1][2], "name", None) == "ruleF" and c[1][3] == "ruleA" and c[1][4] == (0, 1) for c in seen["calls"]))]
            pat = s_top.attrs["applicable_rules"]["ruleA"][1]
            out.append(("windows-searched-on-the-candidate-with-the-rule-pattern", ["C15"],
                        any(c[0] == "match_rule" and c[1][0] is s_top.attrs["prod"] and c[1][1] is pat for c in seen["calls"])))
            if new_pp is None:
                out.append(("nothing-new-means-the-values-are-emitted", ["C15", "C14"],
                            len(yielded) >= 0 and "score_final" in calls and all(x in seen["stack0"] for x in stack)
                            and len(stack) == 2 and s_top not in stack))
                return out
            key = SP.key(new_pp.attrs["prod"])
            better = z3.Or(z3.Not(z3.Select(SP.dom0, key)), z3.Select(SP.val0, key) < ns)
            emitted = "score_final" in calls
            pushed = not emitted        # accepted candidates suppress emission (it may still fall off the depth-limited stack)
            out.append(("new-candidate-kept-iff-unseen-or-strictly-better", ["C15", "C14"], better if pushed else z3.Not(better)))
            out.append(("scored-before-comparison", ["C15", "C14"], new_pp.attrs.get("score") is ns))
            if pushed:
                out.append(("dedup-table-records-the-score", ["C15", "C14"],
                            z3.And(SP.dom == z3.Store(SP.dom0, key, z3.BoolVal(True)), SP.val == z3.Store(SP.val0, key, ns))))
                out.append(("no-emission-while-something-new-was-derived", ["C15"], not emitted and not yielded))
                members = [x for x in seen["stack0"] if x is not s_top] + [new_pp]
                k = depth if depth > 0 else 3
                # depth limit only removes candidates, keeps the best, never invents
                srt = all(any(x is y for y in members) for x in stack) and len(stack) == min(3, k) and len(set(map(id, stack))) == len(stack)
                out.append(("stack-is-a-suffix-of-the-sorted-candidates", ["C15"], srt))
                lt = lambda p, q: z3.Or(p.attrs["max_covered_chars"] < q.attrs["max_covered_chars"],
                                        z3.And(p.attrs["max_covered_chars"] == q.attrs["max_covered_chars"], p.attrs["score"] < q.attrs["score"]))
                if srt:
                    dropped = [x for x in members if not any(x is y for y in stack)]
                    out.append(("kept-candidates-are-sorted-and-not-worse-than-dropped-ones", ["C15"],
                                z3.And(*([z3.Not(lt(stack[i + 1], stack[i])) for i in range(len(stack) - 1)] +
                                         [z3.Not(lt(y, x)) for x in dropped for y in stack]))))
            else:
                out.append(("dedup-table-unchanged-when-rejected", ["C15", "C14"], z3.And(SP.dom == SP.dom0, SP.val == SP.val0)))
            return out
        u = FuncUnit("ctparse._ctparse.production-step[%s,depth=%d]" % (new_kind, depth), ["ctparse._ctparse"],
                     ["C15", "C14", "C13", "C03"], setup, call, ens, check_frame=False, prop_map={"safety": ["C15", "C01"]})
        u.cost = 3
        # a fragment executed in a frame the unit builds: a failed clause counts only when the real search deviates from
        # the reference closure (replay), otherwise the code merely changed shape
        u.shape_only_clauses = FRAGMENT_CLAUSES
        return u
    return [mk("none", 10), mk("value", 0), mk("value", 2), mk("value", 10)]


_units_c15 = units


def units(world):  # noqa: F811
    return _units_c15(world) + production_step_units(world)


def initial_filter_unit(world):
    """the initial-stack filter of _ctparse: after sorting, only sequences covering at least
    relative_match_len x the best coverage survive, then the depth limit keeps the best ones"""
    from pyvc.interp import Frame

    def block(fnode):
        body = None
        for n in ast.walk(fnode):
            if isinstance(n, ast.Try):
                body = n.body
        if body is None:
            return None
        for i, st in enumerate(body):
            if (isinstance(st, ast.Assign) and isinstance(st.value, ast.ListComp)
                    and any(isinstance(x, ast.Name) and x.id == "relative_match_len" for x in ast.walk(st.value))):
                j = i
                while j > 0 and not (isinstance(body[j - 1], ast.Expr) and isinstance(body[j - 1].value, ast.Call)
                                     and getattr(body[j - 1].value.func, "attr", "") == "sort"):
                    j -= 1
                k = i + 1
                while k < len(body) and not (isinstance(body[k], ast.Assign) and isinstance(body[k].value, ast.Subscript)
                                             and any(isinstance(x, ast.Name) and x.id == "max_stack_depth" for x in ast.walk(body[k].value))):
                    k += 1
                return body[max(j - 1, 0):k + 1]
        return None

    def mk(depth):
        def setup(it, w):
            items = []
            for i in range(3):
                o = Obj(w.classes["PartialParse"], fresh=False, label="p%d" % i)
                o.attrs.update({"max_covered_chars": z3.Int("p%d.covered" % i), "score": z3.Real("p%d.score" % i)})
                it.assume(o.attrs["max_covered_chars"] >= 1)
                items.append(o)
            rml = z3.Real("relative_match_len")
            it.assume(z3.And(rml > 0, rml <= 1))
            return [items, rml]

        def call(it, w, a):
            items, rml = a
            f = w.func("ctparse._ctparse")
            stmts = block(f.node)
            if not stmts:
                raise Unsupported("initial-stack filter block not found")
            fr = Frame(f, None)
            from contracts.toplevel import search_locals
            nm, _ = search_locals(f.node)
            fr.vars.update({nm["stack"]: list(items), "relative_match_len": rml, "max_stack_depth": depth})
            it.exec_fragment(stmts, fr)
            return fr.vars[nm["stack"]]

        def ens(it, w, a, r):
            items, rml = a
            cov = lambda x: x.attrs["max_covered_chars"]
            lt = lambda p, q: z3.Or(cov(p) < cov(q), z3.And(cov(p) == cov(q), p.attrs["score"] < q.attrs["score"]))
            best = cov(items[0])
            for x in items[1:]:
                best = z3.If(cov(x) > best, cov(x), best)
            ok = isinstance(r, list) and all(any(x is y for y in items) for x in r) and len(set(map(id, r))) == len(r)
            if not ok:
                return [("survivors-are-stack-elements", ["C15"], False)]
            keep = lambda x: z3.ToReal(cov(x)) >= z3.ToReal(best) * rml
            k = depth if depth > 0 else 3
            goals = [keep(x) for x in r] + [z3.Not(lt(r[i + 1], r[i])) for i in range(len(r) - 1)]
            dropped = [x for x in items if not any(x is y for y in r)]
            # a dropped element either fails the coverage test or is not better than any survivor while the depth limit is reached
            for x in dropped:
                goals.append(z3.Or(z3.Not(keep(x)), z3.And(z3.BoolVal(len(r) == k), *[z3.Not(lt(y, x)) for y in r])))
            return [("survivors-are-stack-elements", ["C15"], True),
                    ("exactly-the-sequences-of-maximal-coverage-best-first-within-the-depth-limit", ["C15", "C09"], z3.And(*goals))]
        u = FuncUnit("ctparse._ctparse.initial-filter[depth=%d]" % depth, ["ctparse._ctparse"], ["C15", "C09"], setup, call, ens,
                     check_frame=False, prop_map={"safety": ["C15", "C01"]})
        u.bounded_desc = "initial stack of exactly 3 candidate sequences with symbolic coverage, score and relative_match_len"
        u.bounded_except = ()
        u.shape_only_clauses = FRAGMENT_CLAUSES
        return u
    return [mk(0), mk(2), mk(10)]


_units_c15b = units


def units(world):  # noqa: F811
    return _units_c15b(world) + initial_filter_unit(world)
