"""C15: window matching of a rule pattern on a partial production (_match_rule), proved for
sequences of ANY length with loop invariants; rule application (PartialParse.apply_rule)."""
import ast
import z3

from pyvc.values import SymSeq, SymElem, PairSeq, Unsupported, Obj, Tok, Builtin
from pyvc.logic import And, Or, Not, Implies
from contracts.extra import FuncUnit


class LoopContract:
    def __init__(self, invariant, variant=None, props=("C15",), hints=None):
        self.invariant = invariant      # (it, frame) -> [(conjunct name, formula)]
        self.variant = variant
        self.props = list(props)
        self.hints = hints              # (it, frame) -> ground instances of assumed quantified facts


def match_rule_unit(world):
    # Q(a, k) stands for rule[k](seq[a + k]): the predicate at offset k of the window starting at a.
    # (Writing it over (window, offset) keeps arithmetic out of the quantifier patterns.)
    Q = z3.Function("Q", z3.IntSort(), z3.IntSort(), z3.BoolSort())
    P = lambda k_, j_: Q(j_ - k_, k_)                                      # rule[k](seq[j])
    M = z3.Function("Match", z3.IntSort(), z3.BoolSort())                 # window starting at a matches
    W = z3.Function("witness", z3.IntSort(), z3.IntSort())                # Skolem: a failing position
    s_len, r_len = z3.Int("s_len"), z3.Int("r_len")
    a, k, j = z3.Ints("a k j")

    def Y(it, fr):
        return it.gen_frame(fr).yielded

    def pos(it):
        return it.ghost["state"]["pos"]

    def common(it, fr):
        y = Y(it, fr)
        i_s = fr.vars["i_s"]
        return [
            ("range", z3.And(i_s >= 0, i_s <= s_len, y.n >= 0)),
            ("sound", z3.ForAll([j], z3.Implies(z3.And(j >= 0, j < y.n),
                                                z3.And(M(y.a[j]), y.b[j] == y.a[j] + r_len, y.a[j] >= 0, y.a[j] < i_s)))),
            ("complete", z3.ForAll([a], z3.Implies(z3.And(a >= 0, a < i_s, M(a)),
                                                   z3.And(pos(it)[a] >= 0, pos(it)[a] < y.n, y.a[pos(it)[a]] == a)))),
            ("ascending", z3.ForAll([j], z3.Implies(z3.And(j >= 0, j + 1 < y.n), y.a[j] < y.a[j + 1]))),
        ]

    def inv_outer(it, fr):
        return common(it, fr)

    def inv_inner(it, fr):
        i_s, i_r, i_start = fr.vars["i_s"], fr.vars["i_r"], fr.vars["i_start"]
        it.last_inner_inv = lambda k_: z3.Implies(z3.And(k_ >= 0, k_ < i_r), Q(i_s, k_))
        return [("position", z3.And(i_start == i_s + i_r, i_r >= 1, i_r <= r_len, i_start <= s_len)),
                ("prefix-holds", z3.ForAll([k], z3.Implies(z3.And(k >= 0, k < i_r), Q(i_s, k))))]

    # the three axioms defining Match, as functions so that ground instances can be handed to the solver
    ax1 = lambda a_, k_: z3.Implies(z3.And(M(a_), k_ >= 0, k_ < r_len), Q(a_, k_))
    ax2 = lambda a_: z3.Implies(M(a_), z3.And(a_ >= 0, a_ + r_len <= s_len))
    ax3 = lambda a_: z3.Implies(z3.And(a_ >= 0, a_ + r_len <= s_len, z3.Not(M(a_))),
                                z3.And(W(a_) >= 0, W(a_) < r_len, z3.Not(Q(a_, W(a_)))))

    def hints_outer(it, fr):
        i0 = fr.vars["i_s"] - 1                 # the window start examined by this iteration
        hs = [ax1(i0, 0), ax2(i0), ax3(i0)]
        i_r = fr.vars.get("i_r")
        if i_r is not None:
            hs.append(ax1(i0, i_r))
            # inner invariant `prefix-holds` at k = witness(i0) (it is assumed on this path when the
            # inner loop was left; when it was never entered the instance is vacuous: guarded by M)
            inner = getattr(it, "last_inner_inv", None)
            if inner is not None:
                hs.append(inner(W(i0)))
        return hs

    contracts = {("ctparse._match_rule", 0): LoopContract(inv_outer, lambda it, fr: s_len - fr.vars["i_s"], hints=hints_outer),
                 ("ctparse._match_rule", 1): LoopContract(inv_inner, lambda it, fr: r_len - fr.vars["i_r"])}

    def configure(it):
        it.loop_contracts = contracts
        it.yield_container = lambda f: PairSeq("Y", n=0)
        it.ghost["state"] = {"pos": z3.Array("pos", z3.IntSort(), z3.IntSort())}

        def apply_elem(it2, f, args, kwargs):
            if f.seq.name == "rule" and len(args) == 1 and isinstance(args[0], SymElem) and args[0].seq.name == "seq":
                return Q(it2.simp(args[0].idx - f.idx), f.idx)
            raise Unsupported("unexpected predicate application")
        it.apply_elem = apply_elem

        def on_yield(it2, genframe, v):
            # ghost code: remember where the window starting at v[0] was put
            it2.ghost["state"]["pos"] = z3.Store(it2.ghost["state"]["pos"], v[0], genframe.yielded.n)
        it.on_yield = on_yield

    def setup(it, w):
        it.assume(z3.And(s_len >= 0, r_len >= 0))
        # definition of Match by two axioms (no nested quantifier): fits and every predicate holds
        it.assume(z3.ForAll([a, k], ax1(a, k)))
        it.assume(z3.ForAll([a], ax2(a)))
        it.assume(z3.ForAll([a], ax3(a)))
        return [SymSeq("seq", s_len), SymSeq("rule", r_len)]

    def call(it, w, args):
        return it.call(w.func("ctparse._match_rule"), args, {})

    def ens(it, w, args, y):
        if not isinstance(y, PairSeq):
            return [("yields-pairs", ["C15"], False)]
        p = it.ghost["state"]["pos"]
        n = y.n
        return [("only-windows-where-every-predicate-holds", ["C15"],
                 z3.ForAll([j], z3.Implies(z3.And(j >= 0, j < n), z3.And(M(y.a[j]), y.b[j] == y.a[j] + r_len)))),
                ("every-matching-window-is-yielded", ["C15"],
                 z3.ForAll([a], z3.Implies(z3.And(M(a), s_len > 0, r_len > 0), z3.And(p[a] >= 0, p[a] < n, y.a[p[a]] == a)))),
                ("in-ascending-order", ["C15"], z3.ForAll([j], z3.Implies(z3.And(j >= 0, j + 1 < n), y.a[j] < y.a[j + 1]))),
                ("nothing-for-empty-sequence-or-rule", ["C15"], z3.Implies(z3.Or(s_len == 0, r_len == 0), n == 0))]
    u = FuncUnit("ctparse._match_rule", ["ctparse._match_rule"], ["C15", "C01"], setup, call, ens, check_frame=False,
                 prop_map={"safety": ["C15", "C01"]})
    u.configure = configure
    u.cost = 5
    return u


def units(world):
    return [match_rule_unit(world)]
