"""Verification units for the functions that are not production rules."""
import ast
import z3

from pyvc.values import FuncVal, Builtin, Obj, SOpt, Unsupported
from pyvc.interp import Frame
from pyvc.logic import And, Or, Not, Implies
from pyvc import symargs
from pyvc.vcgen import verify_function, merged_formula
from spec import wf as WF
from spec.views import fld, v, has, kind
from contracts.generic import wf_value, Env
from contracts import func_specs as FS


class FuncUnit:
    kind = "func"

    def __init__(self, name, qualnames, props, setup, call, ensures, cost=1, allow_raises=(), cover=None,
                 prop_map=None, contracts=None, check_frame=True):
        self.name = name
        self.qualnames = qualnames if isinstance(qualnames, (list, tuple)) else [qualnames]
        self.props = set(props)
        self.setup, self.call, self.ensures = setup, call, ensures
        self.cost = cost
        self.allow_raises = allow_raises
        self.cover = cover
        self.prop_map = prop_map or {}
        self.contracts = contracts
        self.check_frame = check_frame

    def sha(self, world):
        return "+".join(world.sha(world.func(q)) for q in self.qualnames)

    def run(self, world, prop, tier):
        pm = {"safety": self.prop_map.get("safety", ["C01"]), "frame": self.prop_map.get("frame", ["C12", "C15"]),
              "cover": self.prop_map.get("cover", ["C19"])}
        obs, info = verify_function(world, self.name, lambda it: self.setup(it, world),
                                    lambda it, a: self.call(it, world, a),
                                    lambda it, a, r: self.ensures(it, world, a, r), ["C01"],
                                    allow_raises=self.allow_raises, cover=self.cover, prop_map=pm, only_prop=prop,
                                    check_frame=self.check_frame, contracts=self.contracts,
                                    configure=getattr(self, "configure", None))
        for o in obs:
            o.kind = "func"
            if o.clause in getattr(self, "shape_only_clauses", ()):
                o.shape_only = True      # a violation only if the behavioural replay on the real code confirms it
        bd = getattr(self, "bounded_desc", None)
        if bd:
            # loops of this function are unrolled for fixed small sizes: a bounded stand-in, not a proof
            keep = getattr(self, "bounded_except", ())
            n = 0
            for o in obs:
                if o.clause in ("frame",) or o.clause in keep:
                    continue
                o.bounded = True
                n += 1
            info["bounded"] = [{"what": self.name, "bound": bd, "cases": info.get("paths", 1), "distinct": info.get("paths", 1),
                                "obligations_not_counted_as_proved": n, "props": sorted(self.props)}]
        return obs, info


class LemmaUnit:
    """closed formulas (lemmas of the spec library) checked valid by the solver"""
    kind = "lemma"

    def __init__(self, name, props, lemmas, cost=2):
        self.name, self.props, self.lemmas, self.cost = name, set(props), lemmas, cost

    def sha(self, world):
        return "spec"

    def run(self, world, prop, tier):
        import time
        from pyvc.vcgen import Obligation, run_cvc5
        obs = []
        for lname, mk in self.lemmas:
            o = Obligation(self.name, lname, sorted(self.props))
            o.kind = "lemma"
            t0 = time.time()
            s = z3.Solver()
            s.set("timeout", 60000)
            hyp, goal = mk()
            s.add(hyp)
            s.add(z3.Not(goal))
            r = s.check()
            o.queries, o.solver_s, o.paths = 1, time.time() - t0, 1
            if r == z3.unsat:
                o.backend["z3"] += 1
            elif r == z3.sat:
                o.status = "failed"
                o.detail = "lemma refuted: %s" % s.model()
                o.no_input_expected = True
            else:
                rr = run_cvc5(s.to_smt2(), 60)
                if rr == "unsat":
                    o.backend["cvc5"] += 1
                else:
                    o.status = "undecided"
                    o.detail = "solver unknown"
            obs.append(o)
        return obs, {"paths": len(obs)}


def calendar_lemmas():
    from spec import calendar as cal
    y, m, d, y2, m2, d2 = z3.Ints("y m d y2 m2 d2")
    rng = lambda yy: z3.And(yy >= 1, yy <= 9999)

    def succ():
        ny, nm, nd = cal.next_day(y, m, d)
        return (z3.And(rng(y), cal.valid_date(y, m, d), z3.Not(z3.And(y == 9999, m == 12, d == 31))),
                z3.And(cal.valid_date(ny, nm, nd), cal.ordinal(ny, nm, nd) == cal.ordinal(y, m, d) + 1))

    def pred():
        py, pm, pd = cal.prev_day(y, m, d)
        return (z3.And(rng(y), cal.valid_date(y, m, d), z3.Not(z3.And(y == 1, m == 1, d == 1))),
                z3.And(cal.valid_date(py, pm, pd), cal.ordinal(py, pm, pd) == cal.ordinal(y, m, d) - 1))

    def mono():
        return (z3.And(rng(y), rng(y2), cal.valid_date(y, m, d), cal.valid_date(y2, m2, d2),
                       cal.date_lt((y, m, d), (y2, m2, d2))),
                cal.ordinal(y, m, d) < cal.ordinal(y2, m2, d2))

    def inj():
        return (z3.And(rng(y), rng(y2), cal.valid_date(y, m, d), cal.valid_date(y2, m2, d2),
                       cal.ordinal(y, m, d) == cal.ordinal(y2, m2, d2)),
                z3.And(y == y2, m == m2, d == d2))

    def epoch():
        return (z3.BoolVal(True), z3.And(cal.ordinal(1970, 1, 1) == 0, cal.weekday(0) == 3,
                                         cal.ordinal(2000, 3, 1) == 11017, cal.ordinal(2100, 3, 1) - cal.ordinal(2100, 2, 28) == 1))

    def same_as_153():
        return (z3.And(rng(y), cal.valid_date(y, m, d)), cal.ordinal(y, m, d) == cal.ordinal_153(y, m, d))

    def dimrange():
        return (z3.And(rng(y), m >= 1, m <= 12), z3.And(cal.dim(y, m) >= 28, cal.dim(y, m) <= 31, cal.dim(y, m) <= cal.dim_max(m)))
    return [("successor-has-ordinal+1", succ), ("predecessor-has-ordinal-1", pred), ("ordinal-strictly-monotone", mono),
            ("ordinal-injective", inj), ("epoch-anchors", epoch), ("two-closed-forms-agree", same_as_153),
            ("days-in-month-range", dimrange)]


def _ts(it):
    ts = symargs.mk_ts("ts")
    it.assume(WF.wf_ts(ts))
    return ts


def _wf_arg(it, world, o):
    it.assume(wf_value(world.pod_table(), o))
    if kind(o) == "Interval":
        it.assume(WF.aux_interval(o))
    it.assume(WF.wf_span(o))
    return o


def units(world):
    out = [LemmaUnit("spec.calendar", ["C01", "C02", "C03", "C04", "C05", "C06", "C07", "C08", "C20"], calendar_lemmas())]
    pt = world.pod_table()
    env = lambda it: Env(pt, it.ghost)

    # ---------------------------------------------------------------- latent post-processing
    def mk_post(cls):
        def setup(it, w):
            ts = _ts(it)
            mk = {"Time": symargs.mk_time, "Interval": symargs.mk_interval, "Duration": symargs.mk_duration}[cls]
            return [ts, _wf_arg(it, w, mk(it, w, "art"))]

        def call(it, w, a):
            return it.call(w.func("postprocess_latent.apply_postprocessing_rules"), a, {})

        def ens(it, w, a, r):
            return FS.postprocess_clauses(env(it), a[0], a[1], r)
        return FuncUnit("postprocess_latent.apply_postprocessing_rules[%s]" % cls,
                        ["postprocess_latent.apply_postprocessing_rules", "postprocess_latent._latent_tod",
                         "postprocess_latent._latent_time_interval"],
                        ["C01", "C02", "C06", "C07", "C09", "C12", "C15"], setup, call, ens, cost=10)
    for c in ("Time", "Interval", "Duration"):
        out.append(mk_post(c))

    # ---------------------------------------------------------------- accessors
    def mk_acc(cls, attr, clauses, require=None, raises=()):
        def setup(it, w):
            mk = {"Time": symargs.mk_time, "Interval": symargs.mk_interval}[cls]
            o = _wf_arg(it, w, mk(it, w, "self"))
            if require is not None:
                it.assume(require(o))
            return [o]

        def call(it, w, a):
            return it.getattr_(a[0], attr)

        def ens(it, w, a, r):
            return clauses(env(it), a[0], r)
        return FuncUnit("types.%s.%s" % (cls, attr), ["types.%s.%s" % (cls, attr)], ["C01", "C02", "C12"],
                        setup, call, ens, allow_raises=raises, prop_map={"safety": ["C01", "C02"], "frame": ["C12"]})
    out.append(mk_acc("Time", "start", FS.time_start_clauses))
    out.append(mk_acc("Time", "end", FS.time_end_clauses))
    out.append(mk_acc("Time", "dt", FS.time_dt_clauses, require=WF.dated))
    out.append(mk_acc("Interval", "start", FS.interval_start_clauses))
    out.append(mk_acc("Interval", "end", FS.interval_end_clauses))

    # ---------------------------------------------------------------- rule wrapper
    def mk_wrapper(nargs, which):
        """which: 'none' | 'fresh' | index of the argument handed back by the production"""
        def setup(it, w):
            ts = _ts(it)
            args = [_wf_arg(it, w, symargs.mk_time(it, w, "a%d" % i)) for i in range(nargs)]
            for x, y in zip(args, args[1:]):
                it.assume(v(x, "mend") <= v(y, "mstart"))
            if which == "none":
                fres = None
            elif which == "fresh":
                fres = symargs.mk_time(it, w, "fres")
                fres.fresh = True
                it.assume(wf_value(pt, fres))
            else:
                fres = args[which]
            return [ts, args, fres]

        def call(it, w, a):
            ts, args, fres = a
            wf = w.func("rule.rule.fwrapper.wrapper")
            holder = FuncVal(ast.parse("def fwrapper(f): pass").body[0], wf.module, None, qualname="rule.rule.fwrapper")
            fr = Frame(holder)
            seen = {}

            def f(it2, aa, kk):
                seen["args"] = aa
                return fres
            fr.vars["f"] = Builtin("f", f)
            wrapper = FuncVal(wf.node, wf.module, env=fr, qualname="rule.rule.fwrapper.wrapper")
            a.append(seen)
            return it.call(wrapper, [ts] + list(args), {})

        def ens(it, w, a, r):
            ts, args, fres = a[0], a[1], a[2]
            seen = a[3] if len(a) > 3 else {}
            out2 = FS.wrapper_clauses(env(it), ts, args, fres, r)
            fwd = seen.get("args")
            out2.append(("arguments-forwarded", ["C15", "C03"],
                         fwd is not None and len(fwd) == nargs + 1 and fwd[0] is ts
                         and all(x is y for x, y in zip(fwd[1:], args))))
            # first half of the no-alias invariant of productions (replaces assumption A-noalias): what a rule hands
            # to the search is never one of the objects it was applied to
            out2.append(("result-is-none-of-the-arguments", ["C12", "C15"], r is None or all(r is not x for x in args)))
            return out2
        return FuncUnit("rule.rule.fwrapper.wrapper[%d args,%s]" % (nargs, which),
                        ["rule.rule.fwrapper.wrapper", "types.Artifact.update_span"],
                        ["C01", "C02", "C03", "C09", "C12", "C15"], setup, call, ens)
    for n in (1, 2, 3):
        for which in ["none", "fresh"] + list(range(n)):
            out.append(mk_wrapper(n, which))

    # ---------------------------------------------------------------- RegexMatch.__init__ (span of a pattern match)
    def mk_regexmatch():
        from pyvc.values import UTerm, ModVal
        def setup(it, w):
            s0, e0 = z3.Int("span.start"), z3.Int("span.end")
            it.assume(z3.And(s0 >= 0, s0 < e0))      # C19 lemma: no zero-length match
            txt = UTerm("input", ["match text"], "str")
            txt.sym_len = e0 - s0                    # A-regex: group(key) is the text between span(key)
            txt.starts_nonblank = True               # RegLan lemma no-leading-blank (all patterns)
            return [s0, e0, txt, {}]

        def call(it, w, a):
            s0, e0, txt, seen = a
            keys = []

            def span(it2, args, k):
                keys.append(args[0] if args else 0)
                return (s0, e0)

            def group(it2, args, k):
                keys.append(args[0] if args else 0)
                return txt
            m = ModVal("match", {"span": Builtin("match.span", span), "group": Builtin("match.group", group)})
            seen["keys"] = keys
            return it.instantiate(w.classes["RegexMatch"], [123, m], {})

        def ens(it, w, a, r):
            s0, e0, txt, seen = a
            ok = isinstance(r, Obj) and r.cls.name == "RegexMatch"
            if not ok:
                return [("constructs-a-match", ["C02"], False)]
            ms, me = r.attrs.get("mstart"), r.attrs.get("mend")
            from pyvc.values import UTerm as U
            stripped = it.world.builtins["len"].fn(it, [U("str.rstrip", [txt])], {})
            return [("span-starts-at-the-match-and-is-not-empty", ["C02", "C09", "C19"], z3.And(ms == s0, ms < me, me <= e0)),
                    ("span-ends-at-the-last-non-blank-character", ["C09", "C02"], me - ms == stripped),
                    ("id-and-group-key", ["C15", "C19"], r.attrs.get("id") == 123 and all(k == "R123" for k in seen["keys"]) and len(seen["keys"]) >= 2)]
        return FuncUnit("types.RegexMatch.__init__", ["types.RegexMatch.__init__"], ["C02", "C09", "C15", "C19", "C12"], setup, call, ens,
                        prop_map={"safety": ["C01", "C02"], "frame": ["C12"]})
    out.append(mk_regexmatch())

    # ---------------------------------------------------------------- C18: ==, hash, text form
    MK = {"Time": symargs.mk_time, "Interval": symargs.mk_interval, "Duration": symargs.mk_duration}

    def mk_eq(ca, cb):
        def setup(it, w):
            return [_wf_arg(it, w, MK[ca](it, w, "a")), _wf_arg(it, w, MK[cb](it, w, "b"))]

        def call(it, w, a):
            r = it.eq(a[0], a[1])
            hs = it.hash_equal(it.hash_(a[0]), it.hash_(a[1]))
            return (r, hs)

        def ens(it, w, a, r):
            return FS.eq_clauses(env(it), a[0], a[1], r[0], r[1])
        return FuncUnit("types.Artifact.__eq__[%s,%s]" % (ca, cb), ["types.Artifact.__eq__", "types.Artifact.__hash__",
                        "types.%s.__init__" % ca, "types.%s.__init__" % cb], ["C18", "C17", "C12", "C14", "C15"], setup, call, ens,
                        prop_map={"safety": ["C18"], "frame": ["C12"]}, cost=3)
    for ca, cb in (("Time", "Time"), ("Interval", "Interval"), ("Duration", "Duration"), ("Time", "Interval"),
                   ("Time", "Duration"), ("Interval", "Duration")):
        out.append(mk_eq(ca, cb))

    TIME_FIRST, TIME_LAST, TIME_FORBID = set("0123456789X"), {")"}, (" - ",)

    def time_str_contract(it, f, args, kwargs):
        """modular contract of Time.__str__ used by the Interval round trip; its shape facts are the
        clause `text-form-shape` proved on the real Time.__str__"""
        from pyvc import tstr
        return tstr.TStr([tstr.Opaque(args[0], TIME_FIRST, TIME_LAST, TIME_FORBID, "str(Time)")])

    def time_from_str_contract(it, f, args, kwargs):
        """modular contract of Time.from_str on the text form of a Time: a fresh, value-equal Time
        (= clause `parse-of-text-form-is-equal` proved on the real Time.__str__/from_str)"""
        from pyvc import tstr
        t = args[1]
        if isinstance(t, tstr.TStr) and len(t.atoms) == 1 and isinstance(t.atoms[0], tstr.Opaque):
            src = t.atoms[0].obj
            o = Obj(src.cls, fresh=True)
            o.attrs = dict(src.attrs)
            o.attrs["mstart"], o.attrs["mend"] = 0, 0
            return o
        if isinstance(t, str):
            # a literal text (not the text form of a Time): the real body decides (it raises on what is no Time)
            saved = it.contracts
            it.contracts = {k: v for k, v in saved.items() if k != "types.Time.from_str"}
            try:
                return it.call(f, list(args), dict(kwargs))
            finally:
                it.contracts = saved
        raise Unsupported("Time.from_str outside its contract")

    def mk_rt(c):
        def setup(it, w):
            return [_wf_arg(it, w, MK[c](it, w, "x"))]

        def call(it, w, a):
            from pyvc import tstr
            s = it.call(it.getattr_(a[0], "nb_str"), [], {})
            shape_ok = None
            if c == "Time":
                body = it.call(it.getattr_(a[0], "__str__"), [], {})
                fc, lc = tstr.shape(body)
                shape_ok = fc <= TIME_FIRST and lc <= TIME_LAST and all(tstr.cannot_contain(body, x) for x in TIME_FORBID)
            r = it.call(w.func("corpus.parse_nb_string"), [s], {})
            return (r, it.eq(r, a[0]), shape_ok)

        def ens(it, w, a, r):
            return FS.roundtrip_clauses(env(it), a[0], r[0], r[1], r[2])
        contracts = None
        if c == "Interval":
            contracts = {"types.Time.__str__": time_str_contract, "types.Time.from_str": time_from_str_contract}
        return FuncUnit("corpus.parse_nb_string.nb_str[%s]" % c,
                        ["corpus.parse_nb_string", "types.Artifact.nb_str", "types.%s.__str__" % c, "types.%s.from_str" % c],
                        ["C18", "C17", "C12"], setup, call, ens, prop_map={"safety": ["C18"], "frame": ["C12"]}, cost=5,
                        contracts=contracts)
    for c in ("Time", "Interval", "Duration"):
        out.append(mk_rt(c))
    return out
