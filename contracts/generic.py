"""Generic clauses shared by all rule contracts.  z3-free: imported by the verifier
(symbolic evaluation) and by the replay harness under /venv (native evaluation)."""
from pyvc.logic import And, Or, Not
from spec import wf as WF
from spec.views import kind, fld


class Env:
    def __init__(self, pod_table, ghost=None):
        self.pod_table = pod_table
        self.ghost = ghost or {}


def unit_ok(u):
    if hasattr(u, "members") and hasattr(u, "idx"):
        return True
    if hasattr(u, "value") and hasattr(u, "name"):
        return True
    return False


def wf_value(pod_table, o):
    """wf of any resolution value (first sentence of C02)"""
    k = kind(o)
    if k == "Time":
        return WF.wf_time(o, pod_table)
    if k == "Interval":
        return WF.wf_interval(o, pod_table)
    if k == "Duration":
        return WF.wf_duration(o, unit_ok)
    if k == "RegexMatch":
        return True
    return False


def generic_clauses(pod_table, res):
    out = [("result-kind", ["C01", "C02"], kind(res) in ("None", "Time", "Interval", "Duration")),
           ("wf-result", ["C02", "C01"], True if res is None else wf_value(pod_table, res))]
    if kind(res) == "Interval":
        out.append(("aux-invariant-clock-range", ["C07"], WF.aux_interval(res)))
    return out


def rule_clauses(name, pod_table, ghost, ts, args, res):
    """all clauses of the contract of rule `name` for one (arguments, result) pair"""
    from contracts.rule_specs import SPECS
    out = generic_clauses(pod_table, res)
    sp = SPECS.get(name)
    if sp is not None:
        out.extend(sp(Env(pod_table, ghost), ts, *(list(args) + [res])))
    return out
