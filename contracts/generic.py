"""Generic clauses shared by all rule contracts.  z3-free: imported by the verifier
(symbolic evaluation) and by the replay harness under /venv (native evaluation)."""
from pyvc.logic import And, Or, Not
from spec import wf as WF
from spec.views import kind, fld


class Env:
    def __init__(self, pod_table, ghost=None):
        self.pod_table = pod_table
        self.ghost = ghost or {}


def unit_ok(u):
    if hasattr(u, "members") and hasattr(u, "idx"):
        return True
    if hasattr(u, "value") and hasattr(u, "name"):
        return True
    return False


def wf_value(pod_table, o):
    """wf of any resolution value (first sentence of C02)"""
    k = kind(o)
    if k == "Time":
        return WF.wf_time(o, pod_table)
    if k == "Interval":
        return WF.wf_interval(o, pod_table)
    if k == "Duration":
        return WF.wf_duration(o, unit_ok)
    if k == "RegexMatch":
        return True
    return False


def fresh_or_argument(args, res):
    """the result is an object allocated by this call, or one of the arguments handed back --
    never a long-lived shared object (whose span the wrapper would then rewrite on every use)"""
    if res is None or not hasattr(res, "cls"):
        return True
    if getattr(res, "ref", None) is not None:            # native replay: real objects
        import sys
        if any(res.ref is getattr(a, "ref", None) for a in args):
            return True
        for mn in ("ctparse.time.rules", "ctparse.types", "ctparse.rule"):
            mod = sys.modules.get(mn)
            if mod is not None and any(res.ref is v for v in vars(mod).values()):
                return False
        return True
    return bool(getattr(res, "fresh", False)) or any(res is a for a in args)


def generic_clauses(pod_table, res):
    out = [("result-kind", ["C01", "C02"], kind(res) in ("None", "Time", "Interval", "Duration")),
           ("wf-result", ["C02", "C01"], True if res is None else wf_value(pod_table, res))]
    if kind(res) == "Interval":
        out.append(("aux-invariant-clock-range", ["C07"], WF.aux_interval(res)))
    return out


def weight(o):
    """termination measure of one item of a partial production (B.4/C01): pattern matches weigh 2,
    values that a latent rule can still rewrite weigh 1, everything else 0"""
    from spec.views import only
    from pyvc.logic import If
    k = kind(o)
    if k == "RegexMatch":
        return 2
    if k == "Time":
        return If(Or(only(o, "day"), only(o, "DOW"), only(o, "month", "day"), only(o, "POD")), 1, 0)
    return 0


def rule_clauses(name, pod_table, ghost, ts, args, res, spec_name=None):
    """all clauses of the contract of rule `name` for one (arguments, result) pair"""
    from contracts.rule_specs import SPECS
    if spec_name is not None:
        return list(SPECS[spec_name](Env(pod_table, ghost), ts, *(list(args) + [res])))
    out = generic_clauses(pod_table, res)
    out.append(("result-fresh-or-argument", ["C12", "C15"], fresh_or_argument(args, res)))
    if len(args) == 1 and res is not None:
        # a rule with a single argument does not shorten the production: its value must weigh less,
        # otherwise the production loop could go on for ever (rules with >= 2 arguments shorten it)
        out.append(("termination-measure-decreases", ["C01"], weight(res) < weight(args[0])))
    if name == "ruleEarlyLatePOD":
        out = [(n, p + ["C19"] if n == "wf-result" else p, g) for n, p, g in out]
    sp = SPECS.get(name)
    if sp is not None:
        import inspect
        if len(inspect.signature(sp).parameters) != len(args) + 3:
            from pyvc.values import Unsupported
            raise Unsupported("the contract of %s expects %d arguments, the definition has %d (redefined rule?)"
                              % (name, len(inspect.signature(sp).parameters) - 3, len(args)))
        try:
            out.extend(sp(Env(pod_table, ghost), ts, *(list(args) + [res])))
        except (AttributeError, KeyError, TypeError) as e:
            # the contract could not even be evaluated.  If that is because of the RESULT (None where the contract speaks
            # about a value, or a value of another kind), the result has not the contracted shape: a failed clause, replayed
            # natively like any other.  Anything else (a named group the pattern no longer has, an argument of another
            # kind) means the contract no longer fits the rule's signature: nothing is decided.
            from contracts.registry import SPEC_PROPS
            from spec.views import kind as _kind
            res_problem = res is None or "NoneType" in str(e)
            if not res_problem:
                try:
                    # does the contract evaluate on a result of each other kind?  then the kind of the result is the problem
                    res_problem = _kind(res) not in ("Time", "Interval", "Duration")
                except Exception:
                    res_problem = False
            if not res_problem:
                try:
                    from pyvc.values import Unsupported
                except Exception:          # native replay (no solver installed there)
                    Unsupported = RuntimeError
                raise Unsupported("the contract of %s cannot be evaluated on this rule any more (%s: %s)" % (name, type(e).__name__, e))
            out.append(("result-has-the-shape-the-contract-speaks-about", sorted(SPEC_PROPS.get(name, ())) or ["C15"], False))
    return out
