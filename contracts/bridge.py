"""Text-level bridge (DESIGN B.3.6): a BOUNDED stand-in for the two links no function contract
reaches -- the regex engine finds the tokens (A-regex) and the contracted candidate wins the ranking
(A-rank).  Surface forms of the specification grammar x reference times go through the real
ctparse(); never counted as proved.  Failures inside a region listed in known_findings.json are
printed as KNOWN-FINDING, any other failure is a violation with the failing text as input."""
import json
import os
import re
import subprocess

from pyvc.vcgen import Obligation
from pyvc import world as W

PROPS = ("C03", "C04", "C05", "C06", "C07", "C08", "C09", "C20")


class BridgeUnit:
    kind = "bounded"
    cost = 6
    qualnames = ["ctparse.ctparse"]

    def __init__(self, prop):
        self.prop = prop
        self.name = "bridge[%s]" % prop
        self.props = {prop}

    def sha(self, world):
        return "text-level"

    def run(self, world, prop, tier):
        env = dict(os.environ, PYTHONPATH=world.repo + os.pathsep + W.VERIF, PYTHONDONTWRITEBYTECODE="1")
        seed = os.environ.get("VERIF_SEED", "0") or "0"
        n = "24" if tier == "thorough" else "5"
        p = subprocess.run([W.VENV_PY, "-W", "ignore", os.path.join(W.VERIF, "replay", "bridge.py"), self.prop, seed, n],
                           cwd=world.repo, env=env, capture_output=True, text=True, timeout=6000)
        obs = []
        info = {"paths": 1}

        def ob(clause):
            o = Obligation(self.name, clause, [self.prop])
            o.kind = "bounded"
            o.bounded = True
            o.paths = 1
            obs.append(o)
            return o
        main = ob("winner-is-the-specified-value")
        try:
            r = json.loads(p.stdout.strip().splitlines()[-1])
        except Exception:
            main.status, main.detail = "unsupported", "bridge crashed: " + (p.stderr or p.stdout)[-800:]
            return obs, info
        known = json.load(open(os.path.join(W.VERIF, "known_findings.json")))
        regions = [k for k in known.get("findings", []) if k.get("status") == "open" and k.get("property") == self.prop
                   and k.get("obligation", "").startswith(self.name + "::known:")]
        rest = []
        hits = {}
        for b in r["bad"]:
            for k in regions:
                if re.search(k["region"], b["text"]):
                    hits.setdefault(k["obligation"], []).append(b)
                    break
            else:
                rest.append(b)
        for name, bs in hits.items():
            o = ob(name.split("::", 1)[1])
            o.status = "failed"
            o.detail = "%d cases, e.g. %s" % (len(bs), json.dumps(bs[0], ensure_ascii=False)[:300])
            o.cex = {"args": {"kind": "bridge", "examples": bs[:3]}}
            o.confirmed_natively = True
        info["bounded"] = [{"what": self.name, "bound": "surface forms of the specification grammar (replay/bridge.py) x %s reference times through the real ctparse(text, ts, timeout=0)" % n,
                            "cases": r["cases"], "distinct": r["cases"], "failures": r["n_bad"],
                            "failures_inside_known_regions": sum(len(v) for v in hits.values()), "props": [self.prop]}]
        if rest:
            main.status = "failed"
            main.detail = "%d text-level failures, e.g. %s" % (len(rest), json.dumps(rest[0], ensure_ascii=False)[:400])
            main.cex = {"args": {"kind": "bridge", "examples": rest[:5]}}
            main.confirmed_natively = True
        return obs, info


def units(world):
    return [BridgeUnit(p) for p in PROPS]
