"""C11: separators / dashes / case.  _preprocess_string is two calls into the C regex engine over
Unicode category tables -- no Python-level code to put a contract on: bounded stand-in only.
The deductive part (every rule regex is compiled case-insensitively) lives in contracts/c19.py."""


class BoundedPreprocessUnit:
    kind = "bounded"
    name = "ctparse._preprocess_string[bounded]"
    qualnames = ["ctparse._preprocess_string"]
    props = {"C11", "C10"}
    cost = 10

    def sha(self, world):
        return world.sha(world.func("ctparse._preprocess_string"))

    def run(self, world, prop, tier):
        import json
        import os
        import subprocess
        from pyvc.vcgen import Obligation
        from pyvc import world as W
        env = dict(os.environ, PYTHONPATH=world.repo + os.pathsep + W.VERIF, PYTHONDONTWRITEBYTECODE="1")
        p = subprocess.run([W.VENV_PY, "-W", "ignore", os.path.join(W.VERIF, "replay", "bounded_c11.py"), tier],
                           cwd=world.repo, env=env, capture_output=True, text=True, timeout=3000)
        o = Obligation(self.name, "normalisation-as-stated-on-all-code-points-and-short-strings", ["C11", "C10"])
        o.kind = "bounded"
        o.bounded = True
        o.paths = 1
        info = {"paths": 1}
        try:
            r = json.loads(p.stdout.strip().splitlines()[-1])
        except Exception:
            o.status, o.detail = "unsupported", "bounded check crashed: " + (p.stderr or p.stdout)[-800:]
            return [o], info
        info["bounded"] = [{"what": self.name, "bound": r["bound"], "cases": r["cases"], "distinct": r["distinct"],
                            "failures": len(r["bad"]), "unicode_version_skew_code_points": r["n_skew"], "props": ["C11", "C10"]}]
        if r["bad"]:
            o.status = "failed"
            o.detail = "normalisation differs from the statement: %s" % json.dumps(r["bad"][0])[:500]
            o.cex = {"args": {"kind": "bounded", "examples": r["bad"]}}
            o.confirmed_natively = True
        return [o], info


def units(world):
    return [BoundedPreprocessUnit()]
