"""C17: the dataset builders emit one sample per prefix of the production trace, all labelled by
value equality with the gold annotation; the training entry point builds the documented pipeline."""
import ast
import z3

from pyvc.values import Obj, Tok, UTerm, Builtin, ModVal, Unsupported, FuncVal, PyRaise
from pyvc.logic import And, Or, Not, Implies, Iff
from pyvc import symargs
from contracts.extra import FuncUnit, _wf_arg
from contracts import func_specs as FS


def units(world):
    out = []

    def mk_dataset(kind_res, kind_gold):
        MK = {"Time": symargs.mk_time, "Interval": symargs.mk_interval, "Duration": symargs.mk_duration}

        def setup(it, w):
            res = _wf_arg(it, w, MK[kind_res](it, w, "res"))
            gold = _wf_arg(it, w, MK[kind_gold](it, w, "gold"))
            opts = {"timeout": z3.Real("timeout"), "max_stack_depth": z3.Int("max_stack_depth"),
                    "relative_match_len": z3.Real("relative_match_len"), "scorer": Tok("scorer")}
            return [res, gold, opts, {}]

        def call(it, w, a):
            res, gold, opts, seen = a
            cls = w.classes["CTParse"]
            p1 = Obj(cls, fresh=True, label="p1")
            p1.attrs.update({"resolution": res, "production": (100, 101, "ruleA"), "score": z3.Real("s1"),
                             "subject": "", "labels": []})
            p2 = Obj(cls, fresh=True, label="p2")
            p2.attrs.update({"resolution": res, "production": (102, "ruleB"), "score": z3.Real("s2"), "subject": "", "labels": []})
            entry = Obj(w.classes.get("TimeParseEntry") or cls, fresh=False, label="entry")
            entry.attrs.update({"text": UTerm("input", ["text"], "str"), "ts": Tok("entry.ts"), "gold": gold})
            it.contracts = dict(it.contracts)

            def gen(it2, f2, args, kwargs):
                seen.setdefault("calls", []).append(it2.bind_args(f2, args, kwargs))
                return [p1, None, p2]
            it.contracts["ctparse.ctparse_gen"] = gen
            f = w.func("corpus.make_partial_rule_dataset")
            return it.call(f, [[entry], opts["scorer"], opts["timeout"], opts["max_stack_depth"]],
                           {"relative_match_len": opts["relative_match_len"]})

        def ens(it, w, a, r):
            res, gold, opts, seen = a
            same = FS.same_value(res, gold)
            want = [["100"], ["100", "101"], ["100", "101", "ruleA"], ["102"], ["102", "ruleB"]]
            ok = isinstance(r, list) and len(r) == len(want) and all(isinstance(x, tuple) and len(x) == 2 for x in r)
            cl = [("one-sample-per-trace-prefix-in-order", ["C17"], ok and [x[0] for x in r] == want)]
            if ok:
                cl.append(("label-is-value-equality-with-gold", ["C17"], And(*[Iff(it.truthy(x[1]), same) for x in r])))
            calls = seen.get("calls", [])
            fw = len(calls) == 1 and calls[0].get("latent_time") is False and calls[0].get("scorer") is opts["scorer"] \
                and calls[0].get("timeout") is opts["timeout"] and calls[0].get("max_stack_depth") is opts["max_stack_depth"] \
                and calls[0].get("relative_match_len") is opts["relative_match_len"] and isinstance(calls[0].get("ts"), Tok) \
                and calls[0]["ts"].name == "entry.ts"
            cl.append(("candidates-generated-without-latent-anchoring-with-the-given-options", ["C17"], bool(fw)))
            return cl
        return FuncUnit("corpus.make_partial_rule_dataset[%s,%s]" % (kind_res, kind_gold), ["corpus.make_partial_rule_dataset"],
                        ["C17", "C12"], setup, call, ens, prop_map={"safety": ["C17"], "frame": ["C12"]}, cost=3)
    for kr, kg in (("Time", "Time"), ("Interval", "Interval"), ("Duration", "Duration"), ("Time", "Interval")):
        out.append(mk_dataset(kr, kg))

    def mk_train():
        def setup(it, w):
            return [[z3.Bool("y0"), z3.Bool("y1"), True, False], {}]

        def call(it, w, a):
            ys, seen = a
            it.contracts = dict(it.contracts)

            def fit(it2, f2, args, kwargs):
                seen["fit"] = args
                return args[0]
            it.contracts["pipeline.CTParsePipeline.fit"] = fit
            X = [["a"], ["b"], ["c"], ["d"]]
            seen["X"] = X
            return it.call(w.func("nb_scorer.train_naive_bayes"), [X, ys], {})

        def ens(it, w, a, r):
            ys, seen = a
            args = seen.get("fit")
            ok = args is not None and len(args) == 3 and isinstance(args[0], Obj)
            if not ok:
                return [("documented-pipeline", ["C17", "C16"], False)]
            pipe, X, yb = args
            tr, est = pipe.attrs.get("transformer"), pipe.attrs.get("estimator")
            shape = (isinstance(tr, Obj) and tr.cls.name == "CountVectorizer" and tr.attrs.get("ngram_range") == (1, 3)
                     and isinstance(est, Obj) and est.cls.name == "MultinomialNaiveBayes" and est.attrs.get("alpha") == 1.0
                     and X is seen["X"] and isinstance(yb, list) and len(yb) == 4)
            lab = And(*[yb[i] == z3.If(ys[i], 1, -1) if z3.is_expr(ys[i]) else yb[i] == (1 if ys[i] else -1) for i in range(4)]) if shape else False
            return [("documented-pipeline", ["C17", "C16"], bool(shape)),
                    ("labels-are-plus-minus-one", ["C17", "C16"], lab)]
        return FuncUnit("nb_scorer.train_naive_bayes", ["nb_scorer.train_naive_bayes"], ["C17", "C16", "C12"], setup, call, ens,
                        prop_map={"safety": ["C17"], "frame": ["C12"]})
    out.append(mk_train())
    return out


def run_corpus_unit(world):
    """run_corpus on a one-target corpus with a stubbed candidate stream: every candidate contributes one
    sample per trace prefix, all labelled by `nb_str() == target`; the corpus fails iff a test never
    produces its target"""
    def setup(it, w):
        return [{}]

    def call(it, w, a):
        seen = a[0]
        cls = w.classes["CTParse"]
        mk = lambda tag, prod: Obj(cls, fresh=True, label=tag)
        p1, p2 = mk("p1", None), mk("p2", None)
        r1, r2 = Obj(w.classes["Time"], fresh=False, label="res1"), Obj(w.classes["Time"], fresh=False, label="res2")
        p1.attrs.update({"resolution": r1, "production": (100, "ruleA"), "score": z3.Real("s1")})
        p2.attrs.update({"resolution": r2, "production": (101, 102, "ruleB"), "score": z3.Real("s2")})
        it.contracts = dict(it.contracts)
        target = UTerm("input", ["target"], "str")
        seen["target"] = target
        it.contracts["types.Artifact.nb_str"] = lambda it2, f2, args, k: UTerm("nb_str", [Tok(args[0].label)], "str")

        def gen(it2, f2, args, kwargs):
            seen.setdefault("calls", []).append(it2.bind_args(f2, args, kwargs))
            return [p1, p2]
        it.contracts["ctparse.ctparse_gen"] = gen
        try:
            r = it.call(w.func("corpus.run_corpus"), [[(target, "2018-03-07T12:43", ["some text"])]], {})
            seen["raised"] = False
            return r
        except PyRaise as e:
            if e.cls != "Exception":
                raise
            seen["raised"] = True
            return None

    def ens(it, w, a, r):
        seen = a[0]
        ys = [c for c in it.pc]          # the two label tests are uninterpreted comparisons nb_str(res) == target
        calls = seen.get("calls", [])
        fw = len(calls) == 1 and calls[0].get("latent_time") is False and calls[0].get("timeout") == 0 \
            and calls[0].get("max_stack_depth") == 0 and calls[0].get("relative_match_len") == 1.0 \
            and isinstance(calls[0].get("scorer"), Obj) and calls[0]["scorer"].cls.name == "DummyScorer"
        out = [("whole-search-without-latent-anchoring", ["C17"], bool(fw))]
        if seen.get("raised"):
            # failing corpus: no candidate equals the target on this path
            out.append(("fails-only-when-the-target-is-never-produced", ["C17"],
                        z3.And(*[z3.Not(b) for b in _eqtests(it)]) if _eqtests(it) else False))
            return out
        ok = isinstance(r, tuple) and len(r) == 2
        want = [["100"], ["100", "ruleA"], ["101"], ["101", "102"], ["101", "102", "ruleB"]]
        out.append(("one-sample-per-trace-prefix-in-order", ["C17"], ok and r[0] == want and len(r[1]) == 5))
        if ok and len(r[1]) == 5:
            b = _eqtests(it)
            lab = len(b) == 2 and all(it.truthy(x) is not None for x in r[1])
            same1 = z3.And(it.truthy(r[1][0]) == it.truthy(r[1][1]))
            same2 = z3.And(it.truthy(r[1][2]) == it.truthy(r[1][3]), it.truthy(r[1][3]) == it.truthy(r[1][4]))
            out.append(("all-prefixes-of-a-candidate-carry-its-label", ["C17"], z3.And(same1, same2) if lab else False))
            out.append(("passes-only-when-some-candidate-equals-the-target", ["C17"], z3.Or(*b) if b else False))
        return out
    return FuncUnit("corpus.run_corpus", ["corpus.run_corpus"], ["C17", "C12"], setup, call, ens,
                    prop_map={"safety": ["C17"], "frame": ["C12"]}, cost=2)


def _eqtests(it):
    out, seenn = [], set()
    for c in it.pc:
        for x in _bools(c):
            if str(x).startswith("eqtest!") and str(x) not in seenn:
                seenn.add(str(x))
                out.append(x)
    return out


def _bools(e):
    out = []
    if z3.is_const(e) and z3.is_bool(e) and e.decl().kind() == z3.Z3_OP_UNINTERPRETED:
        out.append(e)
    for c in e.children():
        out.extend(_bools(c))
    return out


_units_c17 = units


def load_corpus_unit(world):
    """load_timeparse_corpus with the file content stubbed (two JSON entries): one entry per record, in order, text
    as stored, reference time = the stored ISO string, gold = parse_nb_string of the stored text form (the
    contract of parse_nb_string is C18's round trip)"""
    def setup(it, w):
        return [{}]

    def call(it, w, a):
        seen = a[0]
        recs = [{"text": "first text", "ref_time": "2020-02-29T23:59:58", "gold_parse": "Time[]{2020-03-01 X:X (X/X)}"},
                {"text": "second", "ref_time": "1999-12-31T00:00:00", "gold_parse": "Duration[]{2 days}"}]
        seen["recs"] = recs
        cm = w.modules["ctparse.corpus"]
        saved = {k: cm.globals.get(k) for k in ("json", "open", "TimeParseEntry")}
        # the record type: field names read from the real declaration  TimeParseEntry = NamedTuple(name, [(field, type), ...])
        fields = None
        for st in cm.tree.body:
            if isinstance(st, ast.Assign) and any(isinstance(t, ast.Name) and t.id == "TimeParseEntry" for t in st.targets) \
                    and isinstance(st.value, ast.Call) and len(st.value.args) == 2 and isinstance(st.value.args[1], (ast.List, ast.Tuple)):
                fields = [e.elts[0].value for e in st.value.args[1].elts if isinstance(e, ast.Tuple) and isinstance(e.elts[0], ast.Constant)]
        if not fields:
            raise Unsupported("declaration of TimeParseEntry not found")
        seen["fields"] = fields

        def mk_entry(it2, args, k):
            vals = dict(zip(fields, args))
            for kk, vv in k.items():
                if kk not in fields or kk in vals:
                    raise PyRaise("TypeError", "TimeParseEntry() got an unexpected or repeated argument %r" % kk)
                vals[kk] = vv
            if set(vals) != set(fields):
                raise PyRaise("TypeError", "TimeParseEntry() missing arguments")
            o = Obj(w.classes["Artifact"], fresh=True, label="entry")     # a record: only its named fields are looked at
            o.attrs = dict(vals)
            return o
        cm.globals["TimeParseEntry"] = Builtin("TimeParseEntry", mk_entry)
        cm.globals["json"] = ModVal("json", {"load": Builtin("json.load", lambda it2, args, k: [dict(r) for r in recs])})
        cm.globals["open"] = Builtin("open", lambda it2, args, k: Tok("file"))
        it.contracts = dict(it.contracts)

        def pnb(it2, f2, args, kwargs):
            seen.setdefault("parsed", []).append(args[0])
            return Tok("gold:" + args[0])
        it.contracts["corpus.parse_nb_string"] = pnb
        try:
            return it.call(w.func("corpus.load_timeparse_corpus"), ["corpus.json"], {})
        finally:
            for k, v in saved.items():
                if v is None:
                    cm.globals.pop(k, None)
                else:
                    cm.globals[k] = v

    def ens(it, w, a, r):
        seen = a[0]
        recs = seen["recs"]
        ok = isinstance(r, list) and len(r) == 2
        items = []
        if ok:
            for x in r:
                if isinstance(x, tuple) and len(x) == 3:
                    items.append(x)
                elif isinstance(x, Obj) and {"text", "ts", "gold"} <= set(x.attrs):
                    items.append((x.attrs["text"], x.attrs["ts"], x.attrs["gold"]))
                else:
                    ok = False
        from pyvc.models import DT
        def ts_ok(t, iso):
            want = (int(iso[0:4]), int(iso[5:7]), int(iso[8:10]), int(iso[11:13]), int(iso[14:16]), int(iso[17:19]))
            return isinstance(t, DT) and all(it.simp(getattr(t, f)) == v if not isinstance(getattr(t, f), int) else getattr(t, f) == v
                                             for f, v in zip(("year", "month", "day", "hour", "minute", "second"), want))
        good = ok and all(items[i][0] == recs[i]["text"] and ts_ok(items[i][1], recs[i]["ref_time"])
                          and getattr(items[i][2], "name", None) == "gold:" + recs[i]["gold_parse"] for i in range(2))
        return [("one-entry-per-record-in-order-with-text-reference-time-and-parsed-gold", ["C17"], bool(good)),
                ("gold-strings-go-through-parse_nb_string", ["C17", "C18"], seen.get("parsed") == [x["gold_parse"] for x in recs])]
    return FuncUnit("corpus.load_timeparse_corpus", ["corpus.load_timeparse_corpus"], ["C17", "C18", "C12"], setup, call, ens,
                    prop_map={"safety": ["C17"], "frame": ["C12"]})


class MonotonicityUnit:
    """bounded stand-in (never counted as proved) for the duplication clause: real training entry point,
    small exhaustive scope + seeded random corpora (replay/bounded_c17.py).  The unbounded argument is the
    textbook-NB contract of the estimator (C16 obligations, also listed under C17) plus the convexity
    lemma of DESIGN (paper step, assumption A-analysis)."""
    kind = "bounded"
    name = "nb_scorer.train_naive_bayes+pipeline[bounded duplication]"
    qualnames = ["nb_scorer.train_naive_bayes", "pipeline.CTParsePipeline.fit", "pipeline.CTParsePipeline.predict_log_proba",
                 "nb_estimator.MultinomialNaiveBayes.fit", "nb_estimator.MultinomialNaiveBayes._construct_log_likelihood",
                 "nb_estimator.MultinomialNaiveBayes._construct_log_class_prior",
                 "nb_estimator.MultinomialNaiveBayes.predict_log_probability", "count_vectorizer.CountVectorizer.fit_transform"]
    props = {"C17"}
    cost = 4

    def sha(self, world):
        return "+".join(world.sha(world.func(q)) for q in self.qualnames[:4])

    def run(self, world, prop, tier):
        import json
        import os
        import subprocess
        from pyvc.vcgen import Obligation
        from pyvc import world as W
        env = dict(os.environ, PYTHONPATH=world.repo + os.pathsep + W.VERIF, PYTHONDONTWRITEBYTECODE="1")
        seed = os.environ.get("VERIF_SEED", "0") or "0"
        p = subprocess.run([W.VENV_PY, "-W", "ignore", os.path.join(W.VERIF, "replay", "bounded_c17.py"), tier, seed],
                           cwd=world.repo, env=env, capture_output=True, text=True, timeout=3000)
        o = Obligation(self.name, "another-copy-of-a-positive-example-never-lowers-its-score", ["C17"])
        o.kind = "bounded"
        o.bounded = True
        o.paths = 1
        info = {"paths": 1}
        try:
            r = json.loads(p.stdout.strip().splitlines()[-1])
        except Exception:
            o.status, o.detail = "unsupported", "bounded check crashed: " + (p.stderr or p.stdout)[-800:]
            return [o], info
        info["bounded"] = [{"what": self.name, "bound": r["bound"], "cases": r["cases"], "distinct": r["distinct"],
                            "failures": len(r["bad"]), "props": ["C17"]}]
        if r["bad"]:
            o.status = "failed"
            o.detail = "retraining with one more copy lowered the score: %s" % json.dumps(r["bad"][0])[:600]
            o.cex = {"args": {"kind": "bounded", "examples": r["bad"]}}
            o.confirmed_natively = True
        return [o], info


def units(world):  # noqa: F811
    return _units_c17(world) + [run_corpus_unit(world), load_corpus_unit(world), MonotonicityUnit()]
