#!/usr/bin/env python3
"""numbers of the summary table of DESIGN.md A.0, from the committed evidence files"""
import glob, json
for f in sorted(glob.glob('/verif/evidence/C*.json')):
    e = json.load(open(f)); c = e['coverage']
    b = c.get('bounded') or []
    print("%s | level=%s | obligations=%d discharged=%d | functions=%d | bounded stand-ins=%d | wall=%.0fs" % (
        e['property_id'], e['level'], c['obligations'], c['discharged'], len(c.get('functions_under_contract', [])), len(b), e.get('wall_s', 0)))
