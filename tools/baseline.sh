#!/bin/bash
# run the repository's pinned suite and compare with BASELINE.json's stable_pass list
cd /repo && PYTHONDONTWRITEBYTECODE=1 /venv/bin/python -m pytest -q -p no:cacheprovider --timeout=900 --continue-on-collection-errors --junitxml=/tmp/_bl.xml >/tmp/_bl.log 2>&1
python3 - <<'PY'
import json,xml.etree.ElementTree as ET
b=json.load(open('/root/.vp/BASELINE.json'))
t=ET.parse('/tmp/_bl.xml')
ok=set()
for tc in t.iter('testcase'):
    if not any(c.tag in('failure','error','skipped') for c in tc):
        ok.add(tc.get('classname')+'::'+tc.get('name'))
miss=[x for x in b['stable_pass'] if x not in ok]
print('baseline pass', len(b['stable_pass'])-len(miss),'/',len(b['stable_pass']),'missing:',miss)
PY
rm -f /tmp/_bl.xml
