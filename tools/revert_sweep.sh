#!/bin/bash
# undo each fix: commit of /repo in turn (reverse patch on the working tree) and run the checks of the properties it was recorded under
cd /verif
python3 - <<'PY' > /tmp/_fixes.txt
import json
k=json.load(open('/verif/known_findings.json'))
seen={}
for f in k['findings']:
    if f['status']=='fixed': seen.setdefault(f['commit'],[]).append(f['property'])
for c,ps in seen.items(): print(c, ' '.join(sorted(set(ps))))
PY
: > seeded/REVERTS.md
while read h props; do
  git -C /repo diff $h^ $h > /tmp/_fix.diff
  if ! git -C /repo apply -R --check /tmp/_fix.diff 2>/dev/null; then echo "$h | reverse patch does not apply | $(git -C /repo log --format=%s -1 $h | cut -c1-70)" >> seeded/REVERTS.md; continue; fi
  git -C /repo apply -R /tmp/_fix.diff
  for p in $props; do
    res=$(./check $p 2>&1); rc=$?
    first=$(echo "$res" | grep -E '^(VIOLATION|UNDECIDED|CHECKER)' | head -1 | sed -E 's/.*obligation=([^ ]+).*/\1/' | cut -c1-100)
    echo "$h | $p | exit=$rc | $first | $(git -C /repo log --format=%s -1 $h | cut -c6-75)" >> seeded/REVERTS.md
  done
  git -C /repo checkout -- .
done < /tmp/_fixes.txt
cat seeded/REVERTS.md
