#!/bin/bash
# regenerate every evidence file from a clean /repo (the committed evidence must come from the unchanged tree)
cd /verif
if [ -n "$(git -C /repo status --porcelain)" ]; then echo "/repo is not clean"; exit 1; fi
rc=0
for p in $(python3 -c "import json;print(' '.join(c['property_id'] for c in json.load(open('MANIFEST.json'))['checks']))"); do
  ./check $p --tier quick > out/_refresh_$p.log 2>&1; r=$?
  tail -1 out/_refresh_$p.log
  [ $r -ne 0 ] && { echo "  !! $p exit=$r"; rc=1; }
done
python3-vt - <<'PY'
import json,jsonschema,glob
S=json.load(open('/root/.vp/EVIDENCE.schema.json'))
for f in sorted(glob.glob('/verif/evidence/*.json')):
    e=json.load(open(f)); jsonschema.validate(e,S)
    c=e['coverage']
    if e['level']=='proof' and c['obligations']!=c['discharged']: print('MISMATCH',f,c['obligations'],c['discharged'])
print('evidence validated')
PY
exit $rc
