#!/bin/bash
# usage: tools/refactor_sweep.sh <dir with r*.diff> <result file>
# applies each behaviour-preserving patch to a scratch worktree of /repo HEAD and runs every check on it:
# any exit 1 (violation) or 3 (checker error) is a false alarm / robustness problem of the machinery.
dir=$1; res=$2; wt=/tmp/refsweep_wt
git -C /repo worktree remove --force $wt 2>/dev/null; git -C /repo worktree prune
git -C /repo worktree add -q --detach $wt HEAD || exit 1
: > $res
for p in $dir/r*.diff; do
  n=$(basename $p .diff)
  git -C $wt checkout -q -- . ; git -C $wt apply $p 2>/dev/null || { echo "$n | does not apply" >> $res; continue; }
  line="$n |"
  for c in C01 C02 C03 C04 C05 C06 C07 C08 C09 C10 C11 C12 C13 C14 C15 C16 C17 C18 C19 C20; do
    out=$(QUICKADD_REPO=$wt VERIF_NO_SELFCHECK=1 VERIF_NO_EVIDENCE=1 VERIF_OUT=/tmp/refsweep_out /verif/check $c 2>&1); rc=$?
    if [ $rc -ne 0 ]; then line="$line $c=$rc"; echo "$n $c exit=$rc :: $(echo "$out" | grep -E 'VIOLATION|UNDECIDED|CHECKER' | head -4 | cut -c1-300 | tr '\n' '|')" >> $res.detail; fi
  done
  echo "$line" >> $res
done
git -C /repo worktree remove --force $wt; rm -rf /tmp/refsweep_out
cat $res
