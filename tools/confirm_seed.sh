#!/bin/bash
# usage: tools/confirm_seed.sh C03 1    -- confirm /tmp/seed/out_C03/patch1.diff in the scratch worktree, keep it under /verif/seeded
id=$1; n=$2; base=${SEEDBASE:-/tmp/seed}; off=${SEEDOFF:-0}; wt=$base/$id; out=$base/out_$id
[ -f $out/patch$n.diff ] || { echo "no patch"; exit 1; }
cd $wt && git checkout -q -- . && git clean -fdq
export PYTHONPATH=$wt PYTHONDONTWRITEBYTECODE=1
/venv/bin/python -W ignore $out/demo$n.py >$base/_d0.log 2>&1; d0=$?
git apply $out/patch$n.diff || { echo "$id/$n: patch does not apply"; exit 1; }
/venv/bin/python -m pytest -q -p no:cacheprovider --timeout=900 --junitxml=$base/_j.xml >$base/_t.log 2>&1
tests=$(JX=$base/_j.xml python3 - <<'PY'
import json,xml.etree.ElementTree as ET
b=json.load(open('/root/.vp/BASELINE.json'))
ok=set()
import os
for tc in ET.parse(os.environ['JX']).iter('testcase'):
    if not any(c.tag in('failure','error','skipped') for c in tc): ok.add(tc.get('classname')+'::'+tc.get('name'))
print(len([x for x in b['stable_pass'] if x in ok]))
PY
)
/venv/bin/python -W ignore $out/demo$n.py >$base/_d1.log 2>&1; d1=$?
git checkout -q -- . ; git clean -fdq
echo "$id/$n demo_pristine=$d0 tests_pass=$tests/70 demo_patched=$d1"
if [ $d0 -eq 0 ] && [ "$tests" = "70" ] && [ $d1 -ne 0 ]; then
  dst=/verif/seeded/$id-$((n+off)); mkdir -p $dst
  cp $out/patch$n.diff $dst/patch.diff; cp $out/demo$n.py $dst/demo.py
  python3 - "$id" "$n" "$dst" "$out" <<'PY'
import sys,json,re
id,n,dst,out=sys.argv[1:]
notes=open(out+'/notes.md').read() if __import__('os').path.exists(out+'/notes.md') else ''
meta={"breaks_property":id,"source":"independent sub-agent given only the property text and a scratch worktree",
 "confirmed":"demo exits 0 on pristine worktree, 70/70 baseline tests pass with the patch, demo exits non-zero with the patch (tools/confirm_seed.sh)",
 "needs_to_manifest":"see notes","notes_excerpt":notes[:3000]}
json.dump(meta,open(dst+'/meta.json','w'),indent=1)
PY
  echo "  kept -> $dst"
fi
