#!/usr/bin/env python3
"""(re)generate MANIFEST.json from contracts/manifest_info.py"""
import json, sys, os
sys.path.insert(0, os.path.dirname(os.path.dirname(os.path.abspath(__file__))))
from contracts import manifest_info as MI
ids = [json.loads(l)["id"] for l in open("/verif/properties.jsonl")]
checks = []
na = []
for i in ids:
    p = MI.PROPS.get(i)
    if p is None or not p.get("claimed", True):
        na.append({"property_id": i, "reason": MI.NOT_APPLICABLE.get(i, "check not built yet (planned per DESIGN.md section 4)")})
        continue
    checks.append({
        "property_id": i,
        "quick_cmd": "./check %s --tier quick" % i,
        "thorough_cmd": "./check %s --tier thorough" % i,
        "evidence_file": "/verif/evidence/%s.json" % i,
        "replay_cmd_template": "./check %s --replay {path}" % i,
        "engine": "pyvc",
        "level_claimed": {"category": p.get("level", "proof"), "text": p["text"], "design_ref": p.get("design_ref", "DESIGN.md section 4/" + i)},
        "level_note": p["note"],
        "technique": p.get("technique", MI.TECHNIQUE),
    })
m = {
    "version": 1,
    "setup_cmd": "true",
    "hooks": {"guard": "QUICKADD_VERIF",
              "enable": "no hooks in /repo: contracts are sidecar files under /verif keyed by qualified function name; the guard is unused by the repository",
              "baseline_off_cmd": "cd /repo && /venv/bin/python -m pytest -ra -q -p no:cacheprovider --timeout=900 --continue-on-collection-errors",
              "source_commits": [], "add_only": True},
    "engines": [{"name": "pyvc", "path": "/verif/pyvc", "serves_properties": [c["property_id"] for c in checks],
                 "kind_free_text": "contract-based deductive verification: sidecar contracts on the real functions of /repo (ast re-read each run), own VC generator (symbolic executor for a stated Python subset), obligations discharged by z3 5.1 with cvc5 as fallback; counter-models replayed on the real code under /venv"}],
    "checks": checks,
    "not_applicable": na,
    "notes": MI.NOTES,
}
json.dump(m, open("/verif/MANIFEST.json", "w"), indent=1)
print(len(checks), "checks,", len(na), "not applicable")
