#!/usr/bin/env python3
"""seeded/SUMMARY.md from the last sweep (tools/sweep_snap.sh seeds <file>) and the patches.
usage: tools/seed_summary.py <sweep result file>"""
import glob, json, os, re, sys
res = {}
for l in open(sys.argv[1]):
    p = [x.strip() for x in l.split("|")]
    if len(p) >= 2:
        res[p[0]] = p[1:]
rows = []
caught = replayed = 0
for d in sorted(glob.glob("/verif/seeded/C*-*/"), key=lambda x: (x.split("/")[-2].split("-")[0], int(x.split("/")[-2].split("-")[1]))):
    sid = os.path.basename(d.rstrip("/"))
    t = open(d + "patch.diff").read()
    files = re.findall(r"^\+\+\+ b/ctparse/(.*)$", t, re.M)
    hunks = re.findall(r"^@@.*@@ ?(.*)$", t, re.M)
    fn = "; ".join(sorted({re.sub(r"^(def|class) ", "", h).split("(")[0].strip() for h in hunks if h.strip()}))[:70]
    r = res.get(sid)
    if not r:
        rows.append("| %s | %s: %s | not in this sweep | |" % (sid, ", ".join(files), fn))
        continue
    rc = r[0]
    m = re.search(r"violations=(\d+) \(without input: (\d+)\)", r[1]) if len(r) > 1 else None
    v, nf = (int(m.group(1)), int(m.group(2))) if m else (0, 0)
    ok = rc == "exit=1"
    caught += ok
    replayed += ok and v > nf
    rows.append("| %s | %s: %s | %s | %s | %s |" % (sid, ", ".join(files), fn, rc, ("`%s`" % r[2]) if len(r) > 2 and r[2] else "", "yes" if v > nf else ("no-failing-input-found" if ok else "")))
out = ["# Seeded changes and which obligation reports them", "",
       "Each seed was written by an independent sub-agent that saw only the property text and a scratch worktree; each was confirmed (demo exits 0 on the pristine tree and non-zero with the patch; the 70 baseline tests still pass) by `tools/confirm_seed.sh` before it was kept; `meta.json` of each seed carries the agent's notes.  This table is the last sweep (`tools/sweep_snap.sh seeds`): each patch applied to a scratch worktree of /repo HEAD, the check of the broken property run on it.",
       "", "%d seeds, %d reported by the check of their property (exit 1), %d of them with at least one input replayed on the real code." % (len(rows), caught, replayed), "",
       "| seed | change (file: function) | exit | first reported obligation | replayed input |", "|---|---|---|---|---|"] + rows
open("/verif/seeded/SUMMARY.md", "w").write("\n".join(out) + "\n")
print(out[4])
