#!/bin/bash
# run the check of the broken property against every kept seed; writes /verif/seeded/RESULTS.md
cd /verif
out=seeded/${RESULTFILE:-RESULTS}.tmp; : > $out
for d in /verif/seeded/${SEEDGLOB:-C*-*}/; do
  id=$(basename $d); prop=${id%%-*}
  git -C /repo apply --check $d/patch.diff 2>/dev/null || { echo "$id | does not apply" >> $out; continue; }
  git -C /repo apply $d/patch.diff
  res=$(./check $prop 2>&1); rc=$?
  git -C /repo checkout -- .
  v=$(echo "$res" | grep -c '^VIOLATION'); nf=$(echo "$res" | grep '^VIOLATION' | grep -c 'no-failing-input-found')
  first=$(echo "$res" | grep -E '^(VIOLATION|UNDECIDED|CHECKER)' | head -1 | sed -E 's/.*obligation=([^ ]+).*/\1/' | cut -c1-110)
  echo "$id | exit=$rc | violations=$v (without input: $nf) | $first" >> $out
done
mv $out seeded/${RESULTFILE:-RESULTS}.md; cat seeded/${RESULTFILE:-RESULTS}.md
