#!/bin/bash
# usage: tools/try_patch.sh <patch> <prop> [more check args]   -- apply to /repo, run check, undo
p=$1; shift
git -C /repo apply "$p" || { echo "patch does not apply"; exit 9; }
/verif/check "$@"; rc=$?
git -C /repo checkout -- .
echo "exit=$rc"
