#!/usr/bin/env python3
"""Self-mutation campaign (development tool, not a registered check): single-token mutants of the
library source in scratch copies of /repo, each run through the checks that cover the mutated
function.  Reports survivors = candidates for weak contracts (or equivalent mutants).

usage: tools/mutate.py <out.json> [--files a.py,b.py] [--max N] [--workers K]
"""
import argparse
import ast
import json
import os
import random
import shutil
import subprocess
import sys
import tempfile
from concurrent.futures import ThreadPoolExecutor

VERIF = os.path.dirname(os.path.dirname(os.path.abspath(__file__)))
FILES = ["ctparse/time/rules.py", "ctparse/time/postprocess_latent.py", "ctparse/types.py", "ctparse/partial_parse.py",
         "ctparse/ctparse.py", "ctparse/rule.py", "ctparse/timers.py", "ctparse/nb_scorer.py", "ctparse/nb_estimator.py",
         "ctparse/count_vectorizer.py", "ctparse/corpus.py", "ctparse/loader.py"]
CMP = {ast.Lt: ast.LtE, ast.LtE: ast.Lt, ast.Gt: ast.GtE, ast.GtE: ast.Gt, ast.Eq: ast.NotEq, ast.NotEq: ast.Eq,
       ast.Is: ast.IsNot, ast.IsNot: ast.Is, ast.In: ast.NotIn, ast.NotIn: ast.In}
BIN = {ast.Add: ast.Sub, ast.Sub: ast.Add, ast.Mult: ast.Add}


def mutants_of(src):
    """yield (lineno, description, new source)"""
    tree = ast.parse(src)
    lines = src.splitlines(keepends=True)
    funcs = {}
    for n in ast.walk(tree):
        if isinstance(n, (ast.FunctionDef,)):
            for m in ast.walk(n):
                if hasattr(m, "lineno"):
                    funcs.setdefault(m.lineno, n.name)

    def replace(node, new_text, desc):
        l0, c0, l1, c1 = node.lineno - 1, node.col_offset, node.end_lineno - 1, node.end_col_offset
        if l0 != l1:
            return None
        ls = list(lines)
        ls[l0] = ls[l0][:c0] + new_text + ls[l0][c1:]
        return (node.lineno, funcs.get(node.lineno, "<module>"), desc, "".join(ls))
    for n in ast.walk(tree):
        if isinstance(n, ast.Compare) and len(n.ops) == 1 and type(n.ops[0]) in CMP:
            new = ast.Compare(left=n.left, ops=[CMP[type(n.ops[0])]()], comparators=n.comparators)
            r = replace(n, ast.unparse(new), "%s -> %s" % (type(n.ops[0]).__name__, CMP[type(n.ops[0])].__name__))
            if r:
                yield r
        elif isinstance(n, ast.Constant) and isinstance(n.value, int) and not isinstance(n.value, bool) and abs(n.value) < 10000:
            for d in (1, -1):
                r = replace(n, repr(n.value + d), "const %d -> %d" % (n.value, n.value + d))
                if r:
                    yield r
        elif isinstance(n, ast.BoolOp) and len(n.values) == 2:
            new = ast.BoolOp(op=ast.Or() if isinstance(n.op, ast.And) else ast.And(), values=n.values)
            r = replace(n, ast.unparse(new), "and <-> or")
            if r:
                yield r
        elif isinstance(n, ast.BinOp) and type(n.op) in BIN:
            new = ast.BinOp(left=n.left, op=BIN[type(n.op)](), right=n.right)
            r = replace(n, ast.unparse(new), "%s -> %s" % (type(n.op).__name__, BIN[type(n.op)].__name__))
            if r:
                yield r
        elif isinstance(n, ast.If):
            new = ast.UnaryOp(op=ast.Not(), operand=n.test)
            r = replace(n.test, ast.unparse(new), "negate if-test")
            if r:
                yield r


def props_for(units_index, fname, func):
    """properties whose units execute this function, with the unit-name filter to use"""
    out = {}
    for uname, info in units_index.items():
        if func in info["funcs"]:
            for p in info["props"]:
                out.setdefault(p, set()).add(uname.split("[")[0].split("@")[0])
    return out


def run_one(job):
    idx, fname, lineno, func, desc, newsrc, checks = job
    d = tempfile.mkdtemp(prefix="mut_", dir="/tmp")
    try:
        repo = os.path.join(d, "repo")
        subprocess.run(["git", "-C", "/repo", "worktree", "add", "-q", "--detach", repo, "HEAD"], check=True, capture_output=True)
        open(os.path.join(repo, fname), "w").write(newsrc)
        # does the package still import?
        p = subprocess.run(["/venv/bin/python", "-W", "ignore", "-c", "import ctparse"], cwd=repo,
                           env=dict(os.environ, PYTHONPATH=repo, PYTHONDONTWRITEBYTECODE="1"), capture_output=True, text=True)
        if p.returncode != 0:
            return {"id": idx, "file": fname, "line": lineno, "func": func, "mut": desc, "verdict": "does-not-import"}
        verdict, hit = "survived", []
        for prop, unames in checks:
            env = dict(os.environ, QUICKADD_REPO=repo, VERIF_NO_SELFCHECK="1", VERIF_JOBS="4", VERIF_OUT=os.path.join(d, "out"),
                       VERIF_NO_EVIDENCE="1")
            cmd = [os.path.join(VERIF, "check"), prop] + (["--units", ",".join(sorted(unames))] if unames else [])
            p = subprocess.run(cmd, env=env, capture_output=True,
                               text=True, timeout=1800)
            if p.returncode == 1:
                verdict = "killed"
                hit.append(prop)
                break
            if p.returncode in (2, 3) and verdict != "killed":
                verdict = "undecided"
                hit.append("%s(exit %d)" % (prop, p.returncode))
        return {"id": idx, "file": fname, "line": lineno, "func": func, "mut": desc, "verdict": verdict, "by": hit}
    except Exception as e:
        return {"id": idx, "file": fname, "line": lineno, "func": func, "mut": desc, "verdict": "error", "why": repr(e)[:300]}
    finally:
        subprocess.run(["git", "-C", "/repo", "worktree", "remove", "--force", os.path.join(d, "repo")], capture_output=True)
        shutil.rmtree(d, ignore_errors=True)


def main():
    ap = argparse.ArgumentParser()
    ap.add_argument("out")
    ap.add_argument("--files", default="")
    ap.add_argument("--max", type=int, default=0)
    ap.add_argument("--workers", type=int, default=4)
    ap.add_argument("--seed", type=int, default=1)
    ap.add_argument("--rerun", default="", help="results file of an earlier campaign: run only its survived/undecided mutants again")
    ap.add_argument("--full", action="store_true", help="run the whole check of each property (no --units filter)")
    a = ap.parse_args()
    files = a.files.split(",") if a.files else FILES
    idx = json.loads(subprocess.run(["python3-vt", os.path.join(VERIF, "tools", "list_units.py")], capture_output=True, text=True).stdout)
    jobs = []
    for f in files:
        src = open(os.path.join("/repo", f)).read()
        for lineno, func, desc, new in mutants_of(src):
            pf = props_for(idx, f, func)
            checks = sorted(pf.items())
            if not checks:
                continue
            jobs.append([len(jobs), f, lineno, func, desc, new, [(p, sorted(u)) for p, u in checks]])
    if a.rerun:
        want = {(r["file"], r["line"], r["func"], r["mut"]) for r in json.load(open(a.rerun)) if r["verdict"] in ("survived", "undecided", "error")}
        jobs = [j for j in jobs if (j[1], j[2], j[3], j[4]) in want]
        for k, j in enumerate(jobs):
            j[0] = k
    if a.full:
        for j in jobs:
            j[6] = [(p, []) for p, _ in j[6]]
    random.Random(a.seed).shuffle(jobs)
    if a.max:
        jobs = jobs[:a.max]
    print("%d mutants" % len(jobs), file=sys.stderr)
    res = []
    with ThreadPoolExecutor(a.workers) as ex:
        for r in ex.map(run_one, jobs):
            res.append(r)
            print(json.dumps(r), file=sys.stderr)
            json.dump(res, open(a.out, "w"), indent=0)
    from collections import Counter
    print(Counter(r["verdict"] for r in res))


if __name__ == "__main__":
    main()
