#!/bin/bash
# usage: tools/seedtest.sh <dir with patch*.diff> <prop>   (or a seeded/<id> dir with patch.diff)
d=$1; prop=$2
for p in $d/patch*.diff; do
  [ -f "$p" ] || continue
  git -C /repo apply --check "$p" 2>/dev/null || { echo "$p: DOES-NOT-APPLY"; continue; }
  git -C /repo apply "$p"
  out=$(/verif/check $prop 2>&1); rc=$?
  git -C /repo checkout -- .
  echo "$p prop=$prop exit=$rc :: $(echo "$out" | grep -E 'VIOLATION|UNDECIDED|CHECKER' | head -3 | cut -c1-220 | tr '\n' '|')"
done
