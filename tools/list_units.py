"""{unit name: {"props": [...], "funcs": [names of repo functions the unit executes (transitively, by name)]}}"""
import ast, json, os, sys
sys.path.insert(0, os.path.dirname(os.path.dirname(os.path.abspath(__file__))))
sys.setrecursionlimit(20000)
from pyvc import world as W
from contracts import registry
w = W.World()
defs = {}
for m in w.modules.values():
    for n in ast.walk(m.tree):
        if isinstance(n, ast.FunctionDef):
            defs.setdefault(n.name, []).append(n)


def reach(names):
    seen, todo = set(), list(names)
    while todo:
        x = todo.pop()
        if x in seen or x not in defs:
            continue
        seen.add(x)
        for node in defs[x]:
            for c in ast.walk(node):
                if isinstance(c, ast.Call):
                    f = c.func
                    nm = f.id if isinstance(f, ast.Name) else (f.attr if isinstance(f, ast.Attribute) else None)
                    if nm and nm not in seen:
                        todo.append(nm)
                elif isinstance(c, ast.Attribute) and c.attr in defs and c.attr not in seen:
                    todo.append(c.attr)        # properties
    return sorted(seen)
out = {}
for n, u in registry.build_units(w).items():
    quals = getattr(u, "qualnames", None) or [n.split("[")[0]]
    if hasattr(u, "task"):
        quals = ["rules." + u.task.name]
    base = [q.split(".")[-1] for q in quals]
    out[n] = {"props": sorted(u.props), "funcs": reach(base)}
print(json.dumps(out))
