#!/bin/bash
# usage: tools/sweep_snap.sh seeds|refactor <result file>
# runs from a SNAPSHOT of /verif (so that /verif can be edited meanwhile) against a scratch worktree of /repo HEAD.
#   seeds:    every seeded/<id>/patch.diff against the check of the property it breaks (expected: exit 1)
#   refactor: every seeded/refactorings/*.diff (behaviour-preserving edits) against all 20 checks (expected: exit 0 or 2; 1 = false alarm)
mode=$1; res=$2; snap=/tmp/verif_snap_$mode; wt=/tmp/sweep_wt_$mode
rm -rf $snap; mkdir -p $snap; rsync -a --exclude .git --exclude out /verif/ $snap/
git -C /repo worktree remove --force $wt 2>/dev/null; git -C /repo worktree prune
git -C /repo worktree add -q --detach $wt HEAD || exit 1
: > $res; : > $res.detail
run() { QUICKADD_REPO=$wt VERIF_NO_SELFCHECK=1 VERIF_NO_EVIDENCE=1 VERIF_OUT=/tmp/sweep_out_$mode VERIF_JOBS=${SWEEP_JOBS:-8} $snap/check "$@" 2>&1; }
if [ "$mode" = seeds ]; then
  for d in $snap/seeded/C*-*/; do
    id=$(basename $d); prop=${id%%-*}
    git -C $wt checkout -q -- . ; git -C $wt clean -fdq
    git -C $wt apply $d/patch.diff 2>/dev/null || { echo "$id | does not apply" >> $res; continue; }
    out=$(run $prop); rc=$?
    v=$(echo "$out" | grep -c '^VIOLATION'); nf=$(echo "$out" | grep '^VIOLATION' | grep -c 'no-failing-input-found')
    first=$(echo "$out" | grep -E '^(VIOLATION|UNDECIDED|CHECKER)' | head -1 | sed -E 's/.*obligation=//; s/ no-failing-input-found$//; s/ \((undecided|unsupported)\).*//' | cut -c1-140)
    echo "$id | exit=$rc | violations=$v (without input: $nf) | $first" >> $res
  done
else
  for p in $snap/seeded/refactorings/*.diff; do
    n=$(basename $p .diff)
    git -C $wt checkout -q -- . ; git -C $wt clean -fdq
    git -C $wt apply $p 2>/dev/null || { echo "$n | does not apply" >> $res; continue; }
    line="$n |"
    for c in C01 C02 C03 C04 C05 C06 C07 C08 C09 C10 C11 C12 C13 C14 C15 C16 C17 C18 C19 C20; do
      out=$(run $c); rc=$?
      if [ $rc -ne 0 ]; then line="$line $c=$rc"; echo "$n $c exit=$rc :: $(echo "$out" | grep -E 'VIOLATION|UNDECIDED|CHECKER' | head -4 | cut -c1-300 | tr '\n' '|')" >> $res.detail; fi
    done
    echo "$line" >> $res
  done
fi
git -C /repo worktree remove --force $wt; rm -rf /tmp/sweep_out_$mode $snap
cat $res
