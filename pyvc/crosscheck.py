"""CPython cross-check of the executor (DESIGN 2.5): the engine runs each rule body *concretely*
on the arguments recorded by replay/gen_samples.py and must produce the same result / exception
class as CPython did.  This validates the Python semantics of the executor (A-py) and the trusted
dateutil models (A-dateutil) on the very functions under contract.  A disagreement is an engine
error (exit 3), never a property violation."""
import json
import os
import subprocess

from .values import Obj, PyRaise, Abort, Unsupported, EnumMember, Builtin
from .interp import Interp
from .models import DT
from .symargs import concretize
from . import world as W


class CMatch:
    """concrete regex match: group texts as recorded from the real engine"""

    def __init__(self, groups):
        self.groups = groups


def build(it, world, v):
    if v is None or isinstance(v, (bool, int, float, str)):
        return v
    k = v.get("kind")
    if k == "datetime":
        return DT(*v["fields"])
    if "enum" in v:
        return world.classes[v["enum"]].members[v["name"]]
    if k == "Time":
        o = it.instantiate(world.classes["Time"], [], {})
        for f, x in v["attrs"].items():
            o.attrs[f] = x
    elif k == "Interval":
        o = it.instantiate(world.classes["Interval"], [], {})
        o.attrs["t_from"] = build(it, world, v["attrs"]["t_from"])
        o.attrs["t_to"] = build(it, world, v["attrs"]["t_to"])
    elif k == "Duration":
        o = it.instantiate(world.classes["Duration"], [v["attrs"]["value"], build(it, world, v["attrs"]["unit"])], {})
    elif k == "RegexMatch":
        o = Obj(world.classes["RegexMatch"], fresh=False)
        o.attrs.update({"_attrs": ["mstart", "mend", "id"], "id": v["id"], "key": "R%d" % v["id"], "_text": v.get("text", "")})
        groups = v["groups"]

        def group(it2, a, kw, _g=groups):
            if a[0] not in _g:
                raise PyRaise("IndexError", "no such group")
            return _g[a[0]]
        m = Obj(world.classes["Artifact"], fresh=False)      # any object with a .group attribute
        m.attrs["group"] = Builtin("match.group", group)
        o.attrs["match"] = m
    else:
        raise ValueError(v)
    o.fresh = False
    o.attrs["mstart"], o.attrs["mend"] = v.get("mstart", 0), v.get("mend", 0)
    return o


def norm(v):
    if isinstance(v, dict):
        return {k: norm(x) for k, x in v.items() if k not in ("label", "mstart", "mend")}
    if isinstance(v, list):
        return [norm(x) for x in v]
    return v


def run(world, seed, per_rule):
    env = dict(os.environ, PYTHONPATH=world.repo + os.pathsep + W.VERIF, PYTHONDONTWRITEBYTECODE="1")
    p = subprocess.run([W.VENV_PY, "-W", "ignore", os.path.join(W.VERIF, "replay", "gen_samples.py"), str(seed), str(per_rule)],
                       cwd=world.repo, env=env, capture_output=True, text=True, timeout=1200)
    if p.returncode != 0:
        return {"error": "sample generation failed: " + p.stderr[-800:], "samples": 0, "disagreements": []}
    samples = json.loads(p.stdout)
    rules_mod = world.modules["ctparse.time.rules"]
    dis = []
    unsupported = 0
    for s in samples:
        f = rules_mod.globals.get(s["rule"])
        it = Interp(world)
        try:
            args = [build(it, world, s["ts"])] + [build(it, world, a) for a in s["args"]]
            r = it.call(f, args, {})
            got = {"result": norm(json.loads(json.dumps(concretize(None, r), default=repr)))}
        except PyRaise as e:
            got = {"raises": e.cls}
        except Unsupported as e:
            unsupported += 1
            continue
        except Abort:
            got = {"raises": "<abort>"}
        want = {"raises": s["raises"]} if "raises" in s else {"result": norm(s["result"])}
        if "result" in want and isinstance(want["result"], dict) and want["result"].get("kind") == "Duration":
            pass
        if got != want:
            dis.append({"rule": s["rule"], "ts": s["ts"], "args": s["args"], "cpython": want, "engine": got})
    return {"samples": len(samples), "disagreements": dis[:10], "n_disagreements": len(dis), "unsupported": unsupported}
