"""Validation of the trusted contracts of pyvc/models.py against the installed libraries."""
import json
import os
import subprocess

from .interp import Interp
from .values import PyRaise
from . import models
from .models import DT
from . import world as W


def run(world, seed, n):
    env = dict(os.environ, PYTHONPATH=world.repo + os.pathsep + W.VERIF, PYTHONDONTWRITEBYTECODE="1")
    p = subprocess.run([W.VENV_PY, "-W", "ignore", os.path.join(W.VERIF, "replay", "dateutil_grid.py"), str(seed), str(n)],
                       env=env, capture_output=True, text=True, timeout=7200)
    if p.returncode != 0:
        return {"error": p.stderr[-600:], "points": 0, "mismatches": []}
    bad = []
    cnt = 0
    maxgap = 0
    it = Interp(world)
    for line in p.stdout.splitlines():
        r = json.loads(line)
        cnt += 1
        k = r["k"]
        try:
            if k == "add":
                rd = models.make_relativedelta(it, [], dict(r["op"]))
                try:
                    got = list(models.add_rd(it, DT(*r["ts"]), rd).tup())
                except PyRaise as e:
                    got = e.cls
                got = [int(x) if not isinstance(x, str) else x for x in got] if isinstance(got, list) else got
                if got != r["r"]:
                    bad.append({"case": r, "model": got})
            elif k == "sub":
                td = models.dt_sub(it, DT(*r["a"]), DT(*r["b"]))
                if int(td.days) != r["days"]:
                    bad.append({"case": r, "model": int(td.days)})
            elif k == "between":
                rd = models.relativedelta_between(it, DT(*r["a"]), DT(*r["b"]))
                got = [int(rd.years), int(rd.months), int(rd.days), int(rd.hours), int(rd.minutes)]
                if got != r["r"]:
                    bad.append({"case": r, "model": got})
            elif k == "rrule":
                res = models.make_rrule(it, [1], {"dtstart": DT(*r["ts"]), "byweekday": r["wd"], "bymonthday": r["dom"], "count": 1}).first
                got = [int(x) for x in res.tup()]
                from spec import calendar as cal
                maxgap = max(maxgap, cal.ordinal(*got[:3]) - cal.ordinal(*r["ts"][:3]))
                if got != r["r"]:
                    bad.append({"case": r, "model": got})
            elif k == "ctor":
                y, m, d = r["ymd"]
                try:
                    models.make_datetime(it, [y, m, d], {})
                    ok = True
                except PyRaise:
                    ok = False
                if ok != r["ok"]:
                    bad.append({"case": r, "model": ok})
        except Exception as e:
            bad.append({"case": r, "model": "engine error %r" % e})
        if len(bad) > 20:
            break
    return {"points": cnt, "mismatches": bad[:10], "n_mismatches": len(bad), "max_rrule_gap_days": maxgap,
            "rrule_gap_bound": models.RRULE_MAX_GAP}
