"""Structured ("template") strings: the exact result of str.format on symbolic values, as a
sequence of atoms -- literal characters, zero-padded decimal fields of a symbolic non-negative
int, and words ranging over a finite set.  Enough to *execute* Time/Interval/Duration.__str__,
nb_str, from_str and parse_nb_string symbolically (C18 round trip) without a string solver.

Assumed (A-py): format(v, '0Nd') of 0 <= v < 10**N is N decimal digits, int() of them is v;
format(v, 'd') / str(v) of v >= 0 is a non-empty digit string without sign.
"""
import re
try:
    import re._parser as sre_parse
    import re._constants as sre_c
except ImportError:  # pragma: no cover
    import sre_parse
    import sre_constants as sre_c
import z3

from .values import Unsupported, FinStr, PyRaise, is_z3


class Digits:
    """decimal digits of a non-negative int term; width = exact number of digits or None (natural)"""

    def __init__(self, value, width):
        self.value = value
        self.width = width

    def __repr__(self):
        return "Digits(%s,%s)" % (self.value, self.width)


class Word:
    """a FinStr field"""

    def __init__(self, fin):
        self.fin = fin

    def __repr__(self):
        return "Word(%d)" % len(self.fin.options)


class Opaque:
    """the text form of another object, known only through its proved shape contract:
    first / last character sets and substrings it cannot contain"""

    def __init__(self, obj, first_chars, last_chars, forbids, tag):
        self.obj = obj
        self.first_chars = set(first_chars)
        self.last_chars = set(last_chars)
        self.forbids = tuple(forbids)
        self.tag = tag

    def __repr__(self):
        return "Opaque(%s)" % self.tag


class TStr:
    def __init__(self, atoms):
        self.atoms = atoms      # list of: 1-char str | Digits | Word

    def __repr__(self):
        return "TStr(%s)" % "".join(a if isinstance(a, str) else "<%r>" % a for a in self.atoms)


def atoms_of(v):
    if isinstance(v, str):
        return list(v)
    if isinstance(v, TStr):
        return list(v.atoms)
    if isinstance(v, FinStr):
        return [Word(v)]
    raise Unsupported("cannot embed %r in a structured string" % type(v).__name__)


def normalize(atoms):
    if all(isinstance(a, str) for a in atoms):
        return "".join(atoms)
    if len(atoms) == 1 and isinstance(atoms[0], Word):
        return atoms[0].fin
    return TStr(atoms)


def concat(parts):
    atoms = []
    for p in parts:
        atoms.extend(atoms_of(p))
    return normalize(atoms)


def digits_field(interp, v, width):
    """decimal rendering of int term v zero-padded to `width` (None: natural)"""
    if interp.branch(v < 0):
        raise Unsupported("formatting a possibly negative symbolic int")
    if width is not None:
        # more digits than the pad width when v >= 10**width
        if interp.branch(v >= 10 ** width):
            return TStr([Digits(v, None)])
        return TStr([Digits(v, width)])
    for w in (1, 2, 3, 4):
        if not interp.feasible(v >= 10 ** w) and (w == 1 or not interp.feasible(v < 10 ** (w - 1))):
            return TStr([Digits(v, w)])
    return TStr([Digits(v, None)])


def field_chars(a):
    """set of characters an atom can contain (None = any digit)"""
    if isinstance(a, str):
        return {a}
    if isinstance(a, Digits):
        return set("0123456789")
    return set("".join(a.fin.options))


def can_be_empty(a):
    return isinstance(a, Word) and any(o == "" for o in a.fin.options)


def split(t, sep):
    """str.split(sep) / str.split() on a structured string"""
    atoms = atoms_of(t)
    if sep is None:
        ws = set(" \t\n\r\f\v")
        for a in atoms:
            if not isinstance(a, str) and (field_chars(a) & ws or can_be_empty(a)):
                raise Unsupported("field may contain white space")
        out, cur = [], []
        for a in atoms:
            if isinstance(a, str) and a in ws:
                if cur:
                    out.append(normalize(cur))
                    cur = []
            else:
                cur.append(a)
        if cur:
            out.append(normalize(cur))
        return out
    for a in atoms:
        if isinstance(a, Opaque):
            if sep not in a.forbids or a.first_chars & set(sep) or a.last_chars & set(sep):
                raise Unsupported("opaque text may contain the separator")
        elif not isinstance(a, str) and (field_chars(a) & set(sep) or can_be_empty(a)):
            raise Unsupported("field may contain characters of the separator")
    out, cur, i = [], [], 0
    n = len(sep)
    while i < len(atoms):
        window = atoms[i:i + n]
        if len(window) == n and all(isinstance(x, str) for x in window) and "".join(window) == sep:
            out.append(normalize(cur))
            cur = []
            i += n
        else:
            cur.append(atoms[i])
            i += 1
    out.append(normalize(cur))
    return out


def slice_(t, sl):
    atoms = atoms_of(t)
    lo = sl.start or 0
    hi = sl.stop
    if sl.step not in (None, 1) or lo < 0 or (hi is not None and hi > 0):
        raise Unsupported("slice shape on structured string")
    if not all(isinstance(a, str) for a in atoms[:lo]):
        raise Unsupported("slice cuts into a field")
    k = 0 if hi is None else -hi
    if k and not all(isinstance(a, str) for a in atoms[len(atoms) - k:]):
        raise Unsupported("slice cuts into a field")
    return normalize(atoms[lo:len(atoms) - k] if k else atoms[lo:])


def strip(t, chars, left=True, right=True):
    """str.strip(chars) / lstrip / rstrip on a structured string: characters of the set are removed from the ends;
    decided when the first atom that stops the stripping is a literal, a digit field (set without digits) or a
    field none of whose characters is in the set"""
    if chars is None:
        chars = " \t\n\r\f\v"
    cs = set(chars)
    atoms = atoms_of(t)

    def stops(a):
        if isinstance(a, str):
            return a not in cs
        if isinstance(a, Opaque):
            fc = a.first_chars | a.last_chars
            if fc & cs:
                raise Unsupported("strip reaches into the text form of another value")
            return True
        if can_be_empty(a):
            raise Unsupported("strip next to a field that can be empty")
        if not (field_chars(a) & cs):
            return True
        raise Unsupported("strip reaches into a field")
    lo, hi = 0, len(atoms)
    if left:
        while lo < hi and not stops(atoms[lo]):
            lo += 1
    if right:
        while hi > lo and not stops(atoms[hi - 1]):
            hi -= 1
    return normalize(atoms[lo:hi])


def startswith(t, prefix):
    atoms = atoms_of(t)
    for i, c in enumerate(prefix):
        if i >= len(atoms):
            return False
        a = atoms[i]
        if isinstance(a, str):
            if a != c:
                return False
        elif isinstance(a, Digits):
            if not c.isdigit():
                return False
            raise Unsupported("prefix reaches into a digit field")
        else:
            if all(not o.startswith(c) for o in a.fin.options) and not can_be_empty(a):
                return False
            raise Unsupported("prefix reaches into a word field")
    return True


def eq_const(interp, t, s):
    """t == s for a Python str s; returns bool / z3 Bool"""
    atoms = atoms_of(t)
    if len(atoms) == 1 and isinstance(atoms[0], Word):
        return atoms[0].fin.where(lambda o: o == s)
    if atoms and isinstance(atoms[0], Opaque):
        if s == "" or s[0] not in atoms[0].first_chars:
            return False
        raise Unsupported("== between opaque text and %r" % s)
    # quick structural refutations
    lits = [a for a in atoms if isinstance(a, str)]
    for c in lits:
        if c not in s:
            return False
    if len(atoms) == 1 and isinstance(atoms[0], Digits):
        if not s.isdigit():
            return False
        d = atoms[0]
        if d.width is not None and len(s) != d.width:
            return False
        if d.width is None and len(s) > 1 and s[0] == "0":
            return False
        return d.value == int(s)
    # first atom mismatch
    a0 = atoms[0] if atoms else None
    if a0 is None:
        return s == ""
    if s == "":
        return False
    if isinstance(a0, Digits) and not s[0].isdigit():
        return False
    if isinstance(a0, str) and a0 != s[0]:
        return False
    raise Unsupported("== between a structured string and %r" % s)


def shape(t):
    """(first characters, last characters) a structured string can have"""
    atoms = atoms_of(t)

    def chars(a, first):
        if isinstance(a, str):
            return {a}
        if isinstance(a, Digits):
            return set("0123456789")
        if isinstance(a, Opaque):
            return a.first_chars if first else a.last_chars
        if can_be_empty(a):
            raise Unsupported("empty word at the boundary")
        return {o[0] if first else o[-1] for o in a.fin.options}
    return chars(atoms[0], True), chars(atoms[-1], False)


def cannot_contain(t, sep):
    try:
        return len(split(t, sep)) == 1
    except Unsupported:
        return False


def to_int(interp, t):
    atoms = atoms_of(t)
    if len(atoms) == 1 and isinstance(atoms[0], Digits):
        return atoms[0].value
    if all(isinstance(a, str) for a in atoms):
        try:
            return int("".join(atoms))
        except ValueError:
            raise PyRaise("ValueError", "invalid literal for int()")
    if all(isinstance(a, Digits) or (isinstance(a, str) and a.isdigit()) for a in atoms):
        raise Unsupported("int() of several digit fields")
    raise PyRaise("ValueError", "invalid literal for int()")


# ---------------------------------------------------------------------------------- regex on TStr
class RegexVal:
    """a compiled regex constant of the program"""

    def __init__(self, pattern, flags=0, engine="regex"):
        self.pattern = pattern
        self.flags = flags
        self.engine = engine
        self.tree = sre_parse.parse(pattern)
        self.ngroups = self.tree.state.groups - 1

    def __repr__(self):
        return "RegexVal(%r)" % self.pattern


class TMatch:
    def __init__(self, groups):
        self.groups = groups        # index -> value (str / TStr / FinStr / None)


def _is_word_atom(a):
    if isinstance(a, str):
        return a.isalnum() or a == "_"
    if isinstance(a, Digits):
        return True
    if any(not re.fullmatch(r"\w+", o) for o in a.fin.options):
        raise Unsupported("word field with non-word characters")
    return True


def _in_matches(items, a):
    """does character-class `items` match atom a entirely (True/False), raising when undecidable"""
    neg = False
    digit_ok = False
    word_ok = False
    lits = set()
    for o, v in items:
        if o is sre_c.NEGATE:
            neg = True
        elif o is sre_c.LITERAL:
            lits.add(chr(v))
        elif o is sre_c.RANGE:
            lits.update(chr(c) for c in range(v[0], v[1] + 1))
        elif o is sre_c.CATEGORY:
            if v is sre_c.CATEGORY_DIGIT:
                digit_ok = True
            elif v is sre_c.CATEGORY_WORD:
                word_ok = True
            else:
                raise Unsupported("category in class")
    if neg:
        raise Unsupported("negated class on structured string")
    if isinstance(a, str):
        return a in lits or (digit_ok and a.isdigit()) or (word_ok and (a.isalnum() or a == "_"))
    if isinstance(a, Digits):
        if digit_ok or word_ok or set("0123456789") <= lits:
            return True
        return False
    if word_ok:
        return _is_word_atom(a)
    return False


def tmatch(interp, rx, t):
    """regex.match(t) (anchored at the start) on a structured string -> TMatch or None"""
    atoms = atoms_of(t)
    groups = {}

    def m_seq(items, i, pos, k):
        """match items[i:] at atom position pos, then continuation k(pos)"""
        if i == len(items):
            return k(pos)
        op, av = items[i]
        nxt = lambda p: m_seq(items, i + 1, p, k)
        if op is sre_c.LITERAL:
            if pos < len(atoms):
                a = atoms[pos]
                if isinstance(a, str):
                    return nxt(pos + 1) if a == chr(av) else False
                if isinstance(a, Digits) and not chr(av).isdigit():
                    return False
                if isinstance(a, Word) and all(chr(av) not in o for o in a.fin.options) and not can_be_empty(a):
                    return False
                raise Unsupported("literal against a field")
            return False
        if op is sre_c.IN or op is sre_c.CATEGORY:
            if pos >= len(atoms):
                return False
            a = atoms[pos]
            it = av if op is sre_c.IN else [(sre_c.CATEGORY, av)]
            if isinstance(a, Digits):
                if a.width == 1:
                    return nxt(pos + 1) if _in_matches(it, a) else False
                if not _in_matches(it, a):
                    return False
                raise Unsupported("single character class against a multi-digit field")
            if isinstance(a, Word):
                raise Unsupported("single character class against a word field")
            return nxt(pos + 1) if _in_matches(it, a) else False
        if op is sre_c.SUBPATTERN:
            gid, _, _, p = av
            start = pos

            def after(p2):
                old = groups.get(gid)
                if gid is not None:
                    groups[gid] = (start, p2)
                r = nxt(p2)
                if not r and gid is not None:
                    if old is None:
                        groups.pop(gid, None)
                    else:
                        groups[gid] = old
                return r
            return m_seq(list(p), 0, pos, after)
        if op is sre_c.BRANCH:
            for alt in av[1]:
                if m_seq(list(alt), 0, pos, nxt):
                    return True
            return False
        if op in (sre_c.MAX_REPEAT, sre_c.MIN_REPEAT):
            lo, hi, p = av
            p = list(p)
            single = len(p) == 1 and p[0][0] in (sre_c.IN, sre_c.CATEGORY, sre_c.LITERAL)
            if single and p[0][0] is not sre_c.LITERAL:
                it = p[0][1] if p[0][0] is sre_c.IN else [(sre_c.CATEGORY, p[0][1])]
                return m_rep_atoms(it, lo, hi, pos, nxt)
            raise Unsupported("repetition of a group on a structured string")
        if op is sre_c.AT:
            if av is sre_c.AT_BEGINNING or av is sre_c.AT_BEGINNING_STRING:
                return nxt(pos) if pos == 0 else False
            if av is sre_c.AT_END or av is sre_c.AT_END_STRING:
                return nxt(pos) if pos == len(atoms) else False
            raise Unsupported("anchor")
        raise Unsupported("regex op %s on structured string" % op)

    def m_rep_atoms(it, lo, hi, pos, k):
        """greedy repetition {lo,hi} of a character class, consuming whole atoms; the number of
        characters of an atom is its width (1 for a literal; unknown widths only under an
        unbounded repetition)"""
        unbounded = hi is sre_c.MAXREPEAT
        ends = [(pos, 0, False)]          # (atom position, characters consumed, unknown widths seen)
        p, cnt, unk = pos, 0, False
        while p < len(atoms):
            a = atoms[p]
            if not _in_matches(it, a):
                break
            if isinstance(a, str):
                w = 1
            elif isinstance(a, Digits) and a.width is not None:
                w = a.width
            else:
                if not unbounded:
                    raise Unsupported("field of unknown width under a bounded repetition")
                w, unk = 1, True
            if not unbounded and cnt + w > hi:
                if isinstance(a, str):
                    break
                raise Unsupported("repetition bound falls inside a field")
            cnt += w
            p += 1
            ends.append((p, cnt, unk))
        for e, c, u in reversed(ends):
            if c < lo:
                continue
            if k(e):
                return True
        return False

    ok = m_seq(list(rx.tree), 0, 0, lambda p: True)
    if not ok:
        return None
    out = {}
    for gid in range(1, rx.ngroups + 1):
        if gid in groups:
            s, e = groups[gid]
            out[gid] = normalize(atoms[s:e])
        else:
            out[gid] = None
    return TMatch(out)
