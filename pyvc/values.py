"""Value domain of the symbolic executor.

Concrete values are plain Python objects (None, bool, int, float, str, tuple,
list, dict, set).  Symbolic scalars are raw z3 terms (Int, Bool, Real sort).
Everything else is one of the classes below.
"""
import itertools
import z3


class PyRaise(Exception):
    """an exception of the *interpreted* program"""

    def __init__(self, cls, msg="", lineno=None, value=None):
        Exception.__init__(self, "%s: %s" % (cls, msg))
        self.cls = cls          # class name (str)
        self.msg = msg
        self.lineno = lineno
        self.value = value


class Abort(Exception):
    """path abandoned: its path condition became unsatisfiable"""


class Unsupported(Exception):
    """construct outside the verified Python subset -> function is 'unsupported' (exit 3)"""


class Impure(Exception):
    """raised inside a speculative (merge) evaluation when a fork or exception would be needed"""


class SOpt:
    """Optional[T]: is_none (z3 Bool or Python bool) and the value when present"""
    __slots__ = ("is_none", "val")

    def __init__(self, is_none, val):
        self.is_none = is_none
        self.val = val

    def __repr__(self):
        return "SOpt(%s, %r)" % (self.is_none, self.val)


class FinStr:
    """a symbolic str ranging over a finite explicit set: options[idx]"""
    __slots__ = ("options", "idx")

    def __init__(self, options, idx):
        self.options = tuple(options)
        self.idx = idx

    def __repr__(self):
        return "FinStr(%d options, %s)" % (len(self.options), self.idx)

    def where(self, pred):
        """z3 Bool: the denoted string satisfies the (Python) predicate"""
        sel = [i for i, o in enumerate(self.options) if pred(o)]
        if len(sel) == len(self.options):
            return True
        if not sel:
            return False
        return z3.Or(*[self.idx == i for i in sel]) if len(sel) > 1 else self.idx == sel[0]

    def map(self, f):
        return FinStr([f(o) for o in self.options], self.idx)

    def domain(self):
        return z3.And(self.idx >= 0, self.idx < len(self.options))


class SStr:
    """a symbolic str as z3 String term seen through a *view*: lowered = .lower() applied,
    stripped = .strip() applied.  All operations on it become regular-language memberships of the
    underlying term (z3 decides those in ms; str.contains / fresh-string models of strip do not)."""
    __slots__ = ("t", "lowered", "stripped")

    def __init__(self, t, lowered=False, stripped=False):
        self.t = t
        self.lowered = lowered
        self.stripped = stripped

    def __repr__(self):
        return "SStr(%s%s%s)" % (self.t, ",lower" if self.lowered else "", ",strip" if self.stripped else "")


class OpaqueStr:
    """some str the engine does not track (result of formatting symbolic values)"""

    def __init__(self, what=""):
        self.what = what

    def __repr__(self):
        return "OpaqueStr(%s)" % self.what


class UTerm:
    """uninterpreted application of a library function to (possibly symbolic) arguments: the
    abstraction of text processing the engine does not look into (regex engine, str methods).
    Two UTerms are known equal when they are structurally identical (same function, same args)."""

    SORTS = {"re.findall": "list", "re.split": "list", "regex.split": "list", "str.split": "list",
             "list": "list", "sorted": "list", "set": "set", "comp": "list", "str.join": "str",
             "re.sub": "str", "str.strip": "str", "str.replace": "str", "str.lower": "str", "elem": "str",
             "preprocess": "str", "labels": "list", "input": "str"}

    def __init__(self, fn, args, sort=None):
        self.fn = fn
        self.args = tuple(args)
        self.sort = sort or self.SORTS.get(fn, "any")

    def key(self):
        def k(x):
            if isinstance(x, UTerm):
                return x.key()
            if isinstance(x, (list, tuple)):
                return tuple(k(y) for y in x)
            if hasattr(x, "sexpr"):
                return ("z3", x.sexpr())
            return ("py", type(x).__name__, repr(x))
        return (self.fn,) + tuple(k(a) for a in self.args)

    def same(self, other):
        return isinstance(other, UTerm) and self.key() == other.key()

    def __repr__(self):
        return "%s(%s)" % (self.fn, ", ".join(repr(a) for a in self.args))


class SymMap:
    """a dict with symbolic contents: domain and values as z3 arrays over an uninterpreted key sort
    (keys are artifacts compared by value: one key constant per distinct value)"""
    KEY = None

    def __init__(self, name, valsort=None):
        import z3
        if SymMap.KEY is None:
            SymMap.KEY = z3.DeclareSort("Key")
        self.name = name
        self.valsort = valsort or z3.RealSort()
        self.dom = z3.Array(name + ".dom", SymMap.KEY, z3.BoolSort())
        self.val = z3.Array(name + ".val", SymMap.KEY, self.valsort)
        self.dom0, self.val0 = self.dom, self.val
        self.keys = {}
        self.fresh = True

    def key(self, obj):
        import z3
        k = id(obj)
        if k not in self.keys:
            self.keys[k] = z3.Const("key_%s" % getattr(obj, "label", getattr(obj, "name", len(self.keys))), SymMap.KEY)
        return self.keys[k]


class SymSeq:
    """a sequence of symbolic length n whose elements are opaque (only indexed and passed on)"""

    def __init__(self, name, n):
        self.name = name
        self.n = n

    def __repr__(self):
        return "SymSeq(%s)" % self.name


class SymElem:
    def __init__(self, seq, idx):
        self.seq = seq
        self.idx = idx

    def __repr__(self):
        return "%s[%s]" % (self.seq.name, self.idx)


class ObjSeq:
    """a list of symbolic length n of objects of an abstract family: element i is object number ix(i);
    an attribute of object number b is attrs[name](b) (uninterpreted functions of the object number).
    list.sort(key=...) replaces ix by ix o pi for a permutation pi the trusted contract of sort describes."""
    _count = [0]

    def __init__(self, name, n, attrs, ix=None, fresh=False):
        self.name, self.n, self.attrs = name, n, attrs
        self.ix = ix if ix is not None else (lambda i: i)
        self.fresh = fresh
        self.sorts = []          # (pi, key term builder) of every sort applied, for hints

    def copy(self):
        c = ObjSeq(self.name + "'", self.n, self.attrs, self.ix, fresh=True)
        c.sorts = self.sorts      # shared: the contract of the caller reads the permutations for its hints
        return c

    def __repr__(self):
        return "ObjSeq(%s)" % self.name


class ObjSeqElem:
    def __init__(self, seq, base):
        self.attrs_of = seq.attrs
        self.family = seq.name.rstrip("'")
        self.base = base

    def __repr__(self):
        return "%s<%s>" % (self.family, self.base)


class PairSeq:
    """ghost list of pairs of ints (the yielded values of a generator): two z3 arrays and a length"""

    def __init__(self, name, n=None, a=None, b=None):
        import z3
        self.name = name
        self.n = z3.Int(name + ".n") if n is None else n
        self.a = z3.Array(name + ".a", z3.IntSort(), z3.IntSort()) if a is None else a
        self.b = z3.Array(name + ".b", z3.IntSort(), z3.IntSort()) if b is None else b

    def append(self, v):
        import z3
        x, y = v
        self.a = z3.Store(self.a, self.n, x)
        self.b = z3.Store(self.b, self.n, y)
        self.n = self.n + 1


class Tok:
    """an opaque value that is only passed around (identity matters, content does not)"""

    def __init__(self, name):
        self.name = name

    def __repr__(self):
        return "Tok(%s)" % self.name


class EnumMember:
    def __init__(self, cls, name, value):
        self.cls = cls      # ClassVal
        self.name = name
        self.value = value

    def __repr__(self):
        return "%s.%s" % (self.cls.name, self.name)

    def __eq__(self, other):
        return isinstance(other, EnumMember) and other.cls.name == self.cls.name and other.name == self.name

    def __hash__(self):
        return hash((self.cls.name, self.name))


class SEnum:
    """symbolic member of an enum class: members[idx]"""

    def __init__(self, cls, idx):
        self.cls = cls
        self.idx = idx
        self.members = cls.enum_members()

    def is_member(self, m):
        for i, x in enumerate(self.members):
            if x == m:
                return self.idx == i
        return False

    def domain(self):
        return z3.And(self.idx >= 0, self.idx < len(self.members))

    def __repr__(self):
        return "SEnum(%s,%s)" % (self.cls.name, self.idx)


_oid = itertools.count(1)


class Obj:
    """heap object of a class defined in /repo"""

    def __init__(self, cls, fresh=True, label=None):
        self.cls = cls
        self.attrs = {}
        self.fresh = fresh
        self.oid = next(_oid)
        self.label = label or ("%s#%d" % (cls.name, self.oid))

    def __repr__(self):
        return "<%s %s>" % (self.cls.name, self.label)


class FuncVal:
    def __init__(self, node, module, env=None, qualname=None, cls=None):
        self.node = node
        self.module = module      # ModuleInfo
        self.env = env            # enclosing Frame (closure) or None
        self.qualname = qualname or node.name
        self.cls = cls            # ClassVal when defined in a class body
        self.name = getattr(node, "name", "<lambda>")

    def __repr__(self):
        return "<func %s>" % self.qualname


class ClassVal:
    def __init__(self, name, node, module, bases):
        self.name = name
        self.node = node
        self.module = module
        self.bases = bases          # list of ClassVal / external markers
        self.members = {}           # name -> value (FuncVal, property markers, constants)
        self.is_enum = False

    def mro(self):
        out = [self]
        for b in self.bases:
            if isinstance(b, ClassVal):
                for c in b.mro():
                    if c not in out:
                        out.append(c)
        return out

    def lookup(self, name):
        for c in self.mro():
            if name in c.members:
                return c.members[name], c
        return None, None

    def issubclass(self, other):
        return other in self.mro()

    def enum_members(self):
        return [v for v in self.members.values() if isinstance(v, EnumMember)]

    def __repr__(self):
        return "<class %s>" % self.name


class Prop:
    def __init__(self, fget):
        self.fget = fget


class ClassMethod:
    def __init__(self, f):
        self.f = f


class StaticMethod:
    def __init__(self, f):
        self.f = f


class BoundMethod:
    def __init__(self, self_, func):
        self.self_ = self_
        self.func = func

    def __repr__(self):
        return "<bound %r of %r>" % (self.func, self.self_)


class Builtin:
    def __init__(self, name, fn):
        self.name = name
        self.fn = fn            # fn(interp, args, kwargs)

    def __repr__(self):
        return "<builtin %s>" % self.name


class ExtType:
    """a builtin / external type usable in isinstance and type(x) == T"""

    def __init__(self, name, fn=None):
        self.name = name
        self.fn = fn            # constructor call, for int/str/float/...

    def __repr__(self):
        return "<type %s>" % self.name

    def __eq__(self, o):
        return isinstance(o, ExtType) and o.name == self.name

    def __hash__(self):
        return hash(self.name)


class ModVal:
    def __init__(self, name, attrs=None):
        self.name = name
        self.attrs = attrs or {}

    def __repr__(self):
        return "<module %s>" % self.name


class SuperProxy:
    def __init__(self, obj, after_cls):
        self.obj = obj
        self.after_cls = after_cls


def is_z3(x):
    return isinstance(x, z3.ExprRef)


def is_symbolic(x):
    return is_z3(x) or isinstance(x, (SOpt, FinStr, SStr, SEnum))
