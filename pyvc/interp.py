"""PyVC symbolic executor: a forward interpreter for the Python subset used by
the functions under contract (DESIGN 2.3).  One run follows one path; paths are
enumerated by re-execution under a decision vector with solver-pruned forks.
"""
import ast
import string
import z3

from .values import (PyRaise, Abort, Unsupported, Impure, SOpt, FinStr, SStr, OpaqueStr, UTerm, Tok, SymMap, SymSeq, SymElem, PairSeq, ObjSeq, ObjSeqElem,
                     EnumMember, SEnum, Obj, FuncVal, ClassVal, Prop, ClassMethod, StaticMethod,
                     BoundMethod, Builtin, ExtType, ModVal, SuperProxy, is_z3, is_symbolic)
from .logic import And, Or, Not, If, Eq, Div, Mod
from . import models
from .models import DT, DateV, TD, RD, RRuleResult
from .regexmodel import WS_CHARS, case_variants
from . import tstr
from .tstr import TStr, RegexVal, TMatch

T_NONE = ExtType("NoneType")
T_INT = ExtType("int")
T_BOOL = ExtType("bool")
T_STR = ExtType("str")
T_FLOAT = ExtType("float")
T_TUPLE = ExtType("tuple")
T_LIST = ExtType("list")
T_DICT = ExtType("dict")
T_SET = ExtType("set")
T_DATETIME = ExtType("datetime")
T_OBJECT = ExtType("object")


class ReturnSig(Exception):
    def __init__(self, value):
        self.value = value


class BreakSig(Exception):
    pass


class ContinueSig(Exception):
    pass


class Frame:
    def __init__(self, func, parent=None):
        self.func = func
        self.vars = {}
        self.parent = parent        # lexical parent (closure)
        self.nonlocals = set()
        self.globals_decl = set()
        self.yielded = None

    def lookup(self, name):
        f = self
        while f is not None:
            if name in f.vars:
                return f.vars[name], True
            f = f.parent
        return None, False


class HashKey:
    def __init__(self, kind, items):
        self.kind = kind
        self.items = items


class MatchVal:
    """abstract regex match object of a RegexMatch argument (A-regex): which named groups are
    present is constrained by the pattern's Boolean skeleton; group texts are abstract"""

    def __init__(self, pm, present, nonempty, ints, strs, tag):
        self.pm = pm                  # PatternModel
        self.present = present        # name -> z3 Bool
        self.nonempty = nonempty      # name -> z3 Bool / True
        self.ints = ints              # name -> z3 Int (int(group text)) for digit groups
        self.strs = strs              # name -> SStr for groups used as text
        self.tag = tag


class GroupVal:
    """text of a named group when present (digits / abstract)"""

    def __init__(self, mv, name):
        self.mv = mv
        self.name = name


class Interp:
    MAX_CALL_DEPTH = 40

    def __init__(self, world, decisions=(), timeout_ms=4000):
        self.world = world
        self.solver = z3.Solver()
        self.solver.set("timeout", timeout_ms)
        self.pc = []
        self.decisions = list(decisions)
        self.pos = 0
        self.trace = []             # decisions actually taken (bool, forced?)
        self.pending = []           # alternative decision prefixes discovered on this run
        self.nfresh = 0
        self.events = []            # frame violations etc.
        self.depth = 0
        self.pure = 0
        self.nchecks = 0
        self.contracts = {}         # qualname -> modular contract (callee replaced by contract)
        self.call_log = []
        self.ghost = {}
        self.cur_line = None
        self.feas_unknown = 0

    # ------------------------------------------------------------------ solver side
    def fresh_int(self, tag):
        self.nfresh += 1
        return z3.Int("%s!%d" % (tag, self.nfresh))

    def fresh_bool(self, tag):
        self.nfresh += 1
        return z3.Bool("%s!%d" % (tag, self.nfresh))

    def fresh_real(self, tag):
        self.nfresh += 1
        return z3.Real("%s!%d" % (tag, self.nfresh))

    def fresh_str(self, tag):
        self.nfresh += 1
        return z3.String("%s!%d" % (tag, self.nfresh))

    def simp(self, x):
        if is_z3(x):
            s = z3.simplify(x)
            if z3.is_int_value(s):
                return s.as_long()
            if z3.is_true(s):
                return True
            if z3.is_false(s):
                return False
            return s
        return x

    def assume(self, c):
        if c is True:
            return
        if c is False:
            raise Abort()
        c = self.simp(c)
        if c is True:
            return
        if c is False:
            raise Abort()
        self.pc.append(c)
        self.solver.add(c)

    def feasible(self, c):
        self.nchecks += 1
        r = self.solver.check(c)
        if r == z3.unknown:
            self.feas_unknown += 1
            return True
        return r == z3.sat

    # Every solver-dependent choice of a run is recorded in the trace as (kind, decision, hash):
    #   'f'  a decision taken in fork mode (both sides feasible -> the other side is queued),
    #   'p'  a forced decision met during a speculative (pure) evaluation,
    #   'x'  a speculative evaluation that had to be abandoned (a real fork or an exception inside).
    # A re-run under a recorded prefix follows these entries WITHOUT asking the solver again, so its
    # control flow cannot depend on solver timing; the hash of each condition is compared (replay guard).
    def _next_entry(self):
        if self.pos < len(self.decisions):
            return self.decisions[self.pos]
        return None

    def _record(self, entry):
        if self.pos < len(self.decisions):
            pass                      # replaying: the entry is already there
        else:
            self.decisions.append(entry)
        self.pos += 1
        self.trace.append(entry)

    def branch(self, cond):
        """decide a (possibly symbolic) condition; forks the exploration when both sides are feasible"""
        if isinstance(cond, bool):
            return cond
        if not is_z3(cond):
            return bool(cond)
        h = cond.hash()               # of the term as built (simplification may reorder arguments)
        cond = self.simp(cond)
        if isinstance(cond, bool):
            return cond
        e = self._next_entry()
        if e is not None:
            kind, d, want = e
            if kind in ("x", "t") or want != h or (kind == "p") != bool(self.pure):
                raise Unsupported("engine error: non-deterministic replay of a path (entry %d)" % self.pos)
            self._record(e)
            if not self.pure:
                self.assume(cond if d else z3.Not(cond))
            return d
        t = self.feasible(cond)
        f = self.feasible(z3.Not(cond))
        if not t and not f:
            raise Abort()
        if self.pure:
            if t and f:
                raise Impure()
            self._record(("p", t, h))
            return t
        if t and f:
            self.pending.append(self.trace + [("f", False, h)])
            d = True
        else:
            d = t
        self._record(("f", d, h))
        self.assume(cond if d else z3.Not(cond))
        return d

    def try_pure(self, thunk, propagate_raise=False, tolerate_unsupported=False):
        """evaluate thunk() without forking; returns (ok, value).  propagate_raise: an exception raised
        without any fork is unconditional on this path and is raised (used for the arguments of dropped
        logger statements)"""
        e = self._next_entry()
        if e is not None and e[0] == "x":
            self._record(e)           # recorded: this speculative evaluation was abandoned
            return False, None
        if e is not None and e[0] != "t":
            raise Unsupported("engine error: non-deterministic replay of a path (entry %d, speculative evaluation)" % self.pos)
        saved = (len(self.pc), self.pos, list(self.trace), len(self.decisions), len(self.pending), len(self.events))
        replaying = e is not None
        self._record(("t", None, 0))  # every speculative evaluation leaves a mark: 't' completed, 'x' abandoned
        self.pure += 1
        self.solver.push()
        try:
            v = thunk()
            ok = True
        except PyRaise:
            if propagate_raise:
                self.solver.pop()
                for c in self.pc[saved[0]:]:
                    self.solver.add(c)
                raise
            v = None
            ok = False
            why = "exception"
        except Impure:
            v = None
            ok = False
            why = "fork needed"
        except Unsupported as ex:
            if not tolerate_unsupported:
                raise
            v = None
            ok = False
            why = "unsupported: %s" % ex
        finally:
            self.pure -= 1
        if ok:
            added = self.pc[saved[0]:]
            self.solver.pop()
            for c in added:
                self.solver.add(c)
            return True, v
        if replaying:
            raise Unsupported("engine error: a recorded speculative evaluation failed on replay (%s)" % why)
        self.solver.pop()
        del self.pc[saved[0]:]
        self.pos = saved[1]
        self.trace = saved[2]
        del self.decisions[saved[3]:]
        del self.pending[saved[4]:]
        del self.events[saved[5]:]
        self._record(("x", None, 0))
        return False, None

    # ------------------------------------------------------------------ value helpers
    def unwrap_opt_arg(self, v, what):
        if isinstance(v, SOpt):
            if self.branch(v.is_none):
                raise PyRaise("TypeError", what)
            return v.val
        return v

    def unwrap(self, v, exc="TypeError", what="operation on None"):
        """value that must not be None for the operation at hand"""
        if isinstance(v, SOpt):
            if self.branch(v.is_none):
                raise PyRaise(exc, what)
            return v.val
        if v is None:
            raise PyRaise(exc, what)
        return v

    def truthy(self, v):
        """Python truthiness as Python bool or z3 Bool (never forks)"""
        if v is None:
            return False
        if isinstance(v, (bool, int, float, str, tuple, list, dict, set, frozenset)):
            return bool(v)
        if is_z3(v):
            if z3.is_bool(v):
                return v
            if z3.is_int(v) or z3.is_real(v):
                return v != 0
            if z3.is_string(v):
                return z3.Length(v) > 0
            raise Unsupported("truthiness of %s" % v.sort())
        if isinstance(v, SOpt):
            return And(Not(v.is_none), self.truthy(v.val))
        if isinstance(v, FinStr):
            return v.where(lambda s: s != "")
        if isinstance(v, SStr):
            if v.stripped:
                ws = z3.Union(*[z3.Re(z3.StringVal(c)) for c in WS_CHARS])
                return z3.Not(z3.InRe(v.t, z3.Star(ws)))
            return z3.Length(v.t) > 0
        if isinstance(v, GroupVal):
            return v.mv.nonempty[v.name]
        if isinstance(v, Obj):
            m, _ = v.cls.lookup("__bool__")
            if m is not None:
                return self.truthy(self.call(BoundMethod(v, m), [], {}))
            m, _ = v.cls.lookup("__len__")
            if m is not None:
                n = self.call(BoundMethod(v, m), [], {})
                return self.truthy(n)
            return True
        if isinstance(v, OpaqueStr):
            raise Unsupported("truthiness of untracked string")
        if isinstance(v, (SymSeq, ObjSeq)):
            return v.n > 0
        if isinstance(v, ObjSeqElem):
            return True
        if isinstance(v, UTerm):
            import hashlib
            return z3.Bool("truthy!" + hashlib.sha256(repr(v.key()).encode()).hexdigest()[:12])
        if isinstance(v, TStr):
            if any(isinstance(a, (str, tstr.Digits)) for a in v.atoms):
                return True
            raise Unsupported("truthiness of structured string")
        return True

    def typeof(self, v):
        if v is None:
            return T_NONE
        if isinstance(v, bool):
            return T_BOOL
        if isinstance(v, int):
            return T_INT
        if isinstance(v, float):
            return T_FLOAT
        if isinstance(v, (str, FinStr, SStr, OpaqueStr, GroupVal, TStr)):
            return T_STR
        if isinstance(v, UTerm):
            return {"str": T_STR, "list": T_LIST, "set": T_SET}.get(v.sort, ExtType("object"))
        if isinstance(v, tuple):
            return T_TUPLE
        if isinstance(v, list):
            return T_LIST
        if isinstance(v, dict):
            return T_DICT
        if isinstance(v, (set, frozenset)):
            return T_SET
        if is_z3(v):
            if z3.is_bool(v):
                return T_BOOL
            if z3.is_int(v):
                return T_INT
            if z3.is_real(v):
                return T_FLOAT
            if z3.is_string(v):
                return T_STR
        if isinstance(v, SOpt):
            if self.branch(v.is_none):
                return T_NONE
            return self.typeof(v.val)
        if isinstance(v, Obj):
            return v.cls
        if isinstance(v, (EnumMember, SEnum)):
            return v.cls
        if isinstance(v, DT):
            return T_DATETIME
        return ExtType(type(v).__name__)

    def isinstance_(self, v, t):
        if isinstance(t, tuple):
            for x in t:
                if self.isinstance_(v, x):
                    return True
            return False
        ty = self.typeof(v)
        if isinstance(t, ClassVal):
            return isinstance(ty, ClassVal) and ty.issubclass(t)
        if isinstance(t, ExtType):
            if t == T_OBJECT:
                return True
            if t == T_INT and ty == T_BOOL:
                return True
            return ty == t
        raise Unsupported("isinstance against %r" % (t,))

    # ------------------------------------------------------------------ comparisons
    def is_none_term(self, v):
        if v is None:
            return True
        if isinstance(v, SOpt):
            return v.is_none
        return False

    def eq(self, a, b):
        """Python == as bool / z3 Bool (no forks except __eq__ bodies)"""
        if isinstance(a, SOpt) or isinstance(b, SOpt):
            an, bn = self.is_none_term(a), self.is_none_term(b)
            av = a.val if isinstance(a, SOpt) else a
            bv = b.val if isinstance(b, SOpt) else b
            both_none = And(an, bn)
            if av is None or bv is None:
                return both_none
            return Or(both_none, And(Not(an), Not(bn), self.eq(av, bv)))
        if a is None or b is None:
            return a is None and b is None
        if isinstance(a, UTerm) or isinstance(b, UTerm):
            if isinstance(a, UTerm) and a.same(b):
                return True
            t, o = (a, b) if isinstance(a, UTerm) else (b, a)
            if isinstance(o, (str, int, bool, UTerm)) or o is None:
                # comparison of abstract text with a constant / another abstract text: an uninterpreted test
                import hashlib
                ko = o.key() if isinstance(o, UTerm) else repr(o)
                return z3.Bool("eqtest!" + hashlib.sha256(repr(sorted([repr(t.key()), repr(ko)])).encode()).hexdigest()[:12])
            raise Unsupported("== on abstract text")
        if isinstance(a, TStr) or isinstance(b, TStr):
            t, o = (a, b) if isinstance(a, TStr) else (b, a)
            if isinstance(o, str):
                return tstr.eq_const(self, t, o)
            if isinstance(o, (TStr, FinStr)):
                raise Unsupported("== between structured strings")
            return False
        if isinstance(a, FinStr) or isinstance(b, FinStr):
            if isinstance(a, FinStr) and isinstance(b, FinStr):
                pairs = [And(a.idx == i, b.idx == j) for i, x in enumerate(a.options)
                         for j, y in enumerate(b.options) if x == y]
                return Or(*pairs) if pairs else False
            f, o = (a, b) if isinstance(a, FinStr) else (b, a)
            if isinstance(o, str):
                return f.where(lambda s: s == o)
            if isinstance(o, SStr):
                return Or(*[And(f.idx == i, o.t == z3.StringVal(x)) for i, x in enumerate(f.options)])
            return False
        if isinstance(a, SStr) or isinstance(b, SStr):
            s, o = (a, b) if isinstance(a, SStr) else (b, a)
            if s.stripped or (isinstance(o, SStr) and o.stripped):
                raise Unsupported("== on a stripped symbolic string")
            if isinstance(o, str):
                if s.lowered:
                    return self._sstr_lower_eq(s, o)
                return s.t == z3.StringVal(o)
            if isinstance(o, SStr) and not s.lowered and not o.lowered:
                return s.t == o.t
            if isinstance(o, SStr):
                raise Unsupported("== of case-folded symbolic strings")
            return False
        if isinstance(a, (SEnum, EnumMember)) or isinstance(b, (SEnum, EnumMember)):
            if isinstance(a, SEnum) and isinstance(b, EnumMember):
                return a.is_member(b)
            if isinstance(b, SEnum) and isinstance(a, EnumMember):
                return b.is_member(a)
            if isinstance(a, SEnum) and isinstance(b, SEnum):
                return a.idx == b.idx if a.cls is b.cls else False
            if isinstance(a, EnumMember) and isinstance(b, EnumMember):
                return a == b
            return False
        if isinstance(a, Obj) or isinstance(b, Obj):
            if isinstance(a, Obj):
                m, _ = a.cls.lookup("__eq__")
                if m is not None:
                    return self.truthy(self.call(BoundMethod(a, m), [b], {}))
            if isinstance(b, Obj):
                m, _ = b.cls.lookup("__eq__")
                if m is not None:
                    return self.truthy(self.call(BoundMethod(b, m), [a], {}))
            return a is b
        if isinstance(a, DT) and isinstance(b, DT):
            return models.dt_compare("==", a, b)
        if isinstance(a, DateV) and isinstance(b, DateV):
            return And(*[Eq(x, y) for x, y in zip(a.tup(), b.tup())])
        if isinstance(a, (tuple, list)) and isinstance(b, (tuple, list)) and type(a) == type(b):
            if len(a) != len(b):
                return False
            return And(*[self.eq(x, y) for x, y in zip(a, b)])
        if isinstance(a, (ClassVal, ExtType)) or isinstance(b, (ClassVal, ExtType)):
            return a is b or (isinstance(a, ExtType) and isinstance(b, ExtType) and a == b)
        if is_z3(a) or is_z3(b):
            if isinstance(a, (str, tuple, list, dict)) or isinstance(b, (str, tuple, list, dict)):
                if (is_z3(a) and z3.is_string(a)) or (is_z3(b) and z3.is_string(b)):
                    return a == b
                return False
            return Eq(a, b)
        if isinstance(a, OpaqueStr) or isinstance(b, OpaqueStr):
            raise Unsupported("== on untracked string")
        try:
            return a == b
        except Exception as e:
            raise Unsupported("== on %r, %r: %s" % (type(a), type(b), e))

    def _sstr_lower_eq(self, s, const):
        # lower(s) == const  <=>  s in product of case pre-images
        r = z3.Re(z3.StringVal(""))
        parts = []
        for ch in const:
            pre = sorted(c for c in case_variants(ch) if c.lower() == ch)
            if not pre:
                return False
            parts.append(z3.Union(*[z3.Re(z3.StringVal(c)) for c in pre]) if len(pre) > 1 else z3.Re(z3.StringVal(pre[0])))
        if parts:
            r = parts[0] if len(parts) == 1 else z3.Concat(*parts)
        return z3.InRe(s.t, r)

    def order(self, op, a, b):
        """< <= > >= ; raises TypeError for None operands like CPython"""
        a = self.unwrap(a, "TypeError", "'%s' not supported with NoneType" % op)
        b = self.unwrap(b, "TypeError", "'%s' not supported with NoneType" % op)
        if isinstance(a, DT) and isinstance(b, DT):
            return models.dt_compare(op, a, b)
        if isinstance(a, (tuple, list)) and isinstance(b, (tuple, list)):
            # CPython: find the first position where the elements differ (==), then order those
            if type(a) != type(b):
                raise PyRaise("TypeError", "'%s' not supported between tuple and list" % op)
            n = min(len(a), len(b))
            for i in range(n):
                if self.branch(self.truthy(self.eq(a[i], b[i]))):
                    continue
                return self.order(op, a[i], b[i])
            return {"<": len(a) < len(b), "<=": len(a) <= len(b), ">": len(a) > len(b), ">=": len(a) >= len(b)}[op]
        num = lambda x: isinstance(x, (int, float)) or (is_z3(x) and (z3.is_int(x) or z3.is_real(x)))
        if num(a) and num(b):
            if op == "<":
                return a < b
            if op == "<=":
                return a <= b
            if op == ">":
                return a > b
            return a >= b
        if isinstance(a, str) and isinstance(b, str):
            return {"<": a < b, "<=": a <= b, ">": a > b, ">=": a >= b}[op]
        if isinstance(a, Obj):
            nm = {"<": "__lt__", "<=": "__le__", ">": "__gt__", ">=": "__ge__"}[op]
            m, _ = a.cls.lookup(nm)
            if m is not None:
                return self.truthy(self.call(BoundMethod(a, m), [b], {}))
        if not (self.plain_python_value(a) and self.plain_python_value(b)):
            raise Unsupported("comparison %s between %s and %s" % (op, type(a).__name__, type(b).__name__))
        raise PyRaise("TypeError", "'%s' not supported between %s and %s" % (op, self.typeof(a), self.typeof(b)))

    def plain_python_value(self, x):
        """a value whose Python type is known exactly (so that "Python raises TypeError here" is a fact, not a gap of the model)"""
        if x is None or isinstance(x, (bool, int, float, str, tuple, list, dict, set, frozenset, Obj, EnumMember)):
            return True
        return is_z3(x) and (z3.is_int(x) or z3.is_real(x) or z3.is_bool(x))

    def contains(self, item, container):
        """item in container"""
        if isinstance(container, SOpt):
            container = self.unwrap(container, "TypeError", "argument of type 'NoneType' is not iterable")
        if container is None:
            raise PyRaise("TypeError", "argument of type 'NoneType' is not iterable")
        if isinstance(container, (tuple, list, set, frozenset)):
            return Or(*[self.eq(item, x) for x in container]) if container else False
        if isinstance(container, SymMap):
            return z3.Select(container.dom, container.key(item))
        if isinstance(container, UTerm) or (isinstance(container, Tok) and getattr(container, "module_global", False)):
            self.nfresh += 1
            return z3.Bool("intest!%d" % self.nfresh)
        if isinstance(container, dict):
            if not is_symbolic(item) and not isinstance(item, (Obj, SOpt)):
                try:
                    return item in container
                except TypeError:
                    pass
            return Or(*[self.eq(item, k) for k in container.keys()]) if container else False
        if isinstance(container, str):
            if isinstance(item, str):
                return item in container
            if isinstance(item, FinStr):
                return item.where(lambda s: s in container)
            raise Unsupported("symbolic in str")
        if isinstance(container, FinStr):
            item = self.unwrap(item, "TypeError", "'in <string>' requires string as left operand, not NoneType")
            if isinstance(item, str):
                return container.where(lambda s: item in s)
            raise Unsupported("symbolic in FinStr")
        if isinstance(container, SStr):
            if isinstance(item, str) and not container.lowered:
                return z3.Contains(container.t, z3.StringVal(item))
            raise Unsupported("in on symbolic string")
        raise Unsupported("in on %r" % type(container))

    # ------------------------------------------------------------------ arithmetic
    def binop(self, op, a, b):
        if isinstance(a, SOpt) or a is None or isinstance(b, SOpt) or b is None:
            a = self.unwrap(a, "TypeError", "unsupported operand type(s): NoneType")
            b = self.unwrap(b, "TypeError", "unsupported operand type(s): NoneType")
        if isinstance(a, Builtin) and isinstance(b, Builtin) and "." in a.name and "." in b.name:
            # two attributes of opaque library modules (flag constants such as regex.VERSION1 | regex.ASCII)
            return UTerm("binop." + op, [UTerm("attr:" + a.name, [], "any"), UTerm("attr:" + b.name, [], "any")], "any")
        if isinstance(a, UTerm) or isinstance(b, UTerm):
            return UTerm("binop." + op, [a, b], a.sort if isinstance(a, UTerm) else b.sort)
        # datetime arithmetic
        if isinstance(a, DT) and isinstance(b, RD) and op == "Add":
            return models.add_rd(self, a, b)
        if isinstance(a, RD) and isinstance(b, DT) and op == "Add":
            return models.add_rd(self, b, a)
        if isinstance(a, DT) and isinstance(b, DT) and op == "Sub":
            return models.dt_sub(self, a, b)
        if isinstance(a, DT) and isinstance(b, RD) and op == "Sub":
            # datetime - relativedelta = datetime + (-relativedelta): relative parts negated, absolute kept
            n = RD()
            for f in RD.REL:
                setattr(n, f, -getattr(b, f))
            for f in RD.ABS:
                setattr(n, f, getattr(b, f))
            return models.add_rd(self, a, n)
        if isinstance(a, (DT, RD, TD)) or isinstance(b, (DT, RD, TD)):
            raise Unsupported("datetime arithmetic %s" % op)
        # strings
        strish = (str, FinStr, SStr, OpaqueStr)
        if isinstance(a, strish) or isinstance(b, strish) or isinstance(a, GroupVal) or isinstance(b, GroupVal):
            if op == "Add":
                if isinstance(a, str) and isinstance(b, str):
                    return a + b
                if isinstance(a, str) and isinstance(b, FinStr):
                    return b.map(lambda s: a + s)
                if isinstance(a, FinStr) and isinstance(b, str):
                    return a.map(lambda s: s + b)
                if isinstance(a, strish) and isinstance(b, strish):
                    return OpaqueStr("concat")
                raise PyRaise("TypeError", "can only concatenate str to str")
            if op == "Mult" and isinstance(a, str) and isinstance(b, int):
                return a * b
            if op == "Mod" and isinstance(a, str):
                return OpaqueStr("%-format")
            raise PyRaise("TypeError", "unsupported operand for str")
        if isinstance(a, (tuple, list)) and isinstance(b, (tuple, list)) and op == "Add":
            if type(a) != type(b):
                raise PyRaise("TypeError", "can only concatenate same sequence types")
            return a + b
        if isinstance(a, (tuple, list)) and isinstance(b, int) and op == "Mult":
            return a * b
        if isinstance(a, (set, frozenset)) and isinstance(b, (set, frozenset)):
            if op == "Sub":
                return a - b
            if op == "BitOr":
                return a | b
            if op == "BitAnd":
                return a & b
        num = lambda x: isinstance(x, (int, float)) or (is_z3(x) and (z3.is_int(x) or z3.is_real(x)))
        boolish = lambda x: isinstance(x, bool) or (is_z3(x) and z3.is_bool(x))
        if boolish(a) and op in ("BitAnd", "BitOr") and boolish(b):
            return And(a, b) if op == "BitAnd" else Or(a, b)
        if is_z3(a) and z3.is_bool(a):
            a = z3.If(a, 1, 0)
        if is_z3(b) and z3.is_bool(b):
            b = z3.If(b, 1, 0)
        if not (num(a) and num(b)):
            if not (self.plain_python_value(a) and self.plain_python_value(b)):
                # an abstract value of the engine is involved: what Python does is not modelled, so nothing is claimed
                raise Unsupported("binary %s between %s and %s" % (op, type(a).__name__, type(b).__name__))
            raise PyRaise("TypeError", "unsupported operand type(s) for %s: %s and %s" % (op, self.typeof(a), self.typeof(b)))
        sym = is_z3(a) or is_z3(b)
        if not sym:
            try:
                if op == "Add":
                    return a + b
                if op == "Sub":
                    return a - b
                if op == "Mult":
                    return a * b
                if op == "Div":
                    return a / b
                if op == "FloorDiv":
                    return a // b
                if op == "Mod":
                    return a % b
                if op == "Pow":
                    return a ** b
            except ZeroDivisionError:
                raise PyRaise("ZeroDivisionError", "division by zero")
            raise Unsupported("binop %s" % op)
        isreal = lambda x: isinstance(x, float) or (is_z3(x) and z3.is_real(x))
        if op in ("Add", "Sub", "Mult"):
            if isreal(a) or isreal(b):
                a, b = self.toreal(a), self.toreal(b)
            return {"Add": lambda: a + b, "Sub": lambda: a - b, "Mult": lambda: a * b}[op]()
        if op == "Div":
            if self.branch(Eq(b, 0)):
                raise PyRaise("ZeroDivisionError", "division by zero")
            return self.toreal(a) / self.toreal(b)
        if op in ("FloorDiv", "Mod"):
            if isreal(a) or isreal(b):
                raise Unsupported("float // or %")
            if isinstance(b, int):
                if b == 0:
                    raise PyRaise("ZeroDivisionError", "integer division or modulo by zero")
                if b > 0:
                    return Div(a, b) if op == "FloorDiv" else Mod(a, b)
                raise Unsupported("// or % by a negative constant")
            if self.branch(Eq(b, 0)):
                raise PyRaise("ZeroDivisionError", "integer division or modulo by zero")
            if self.branch(b > 0):
                return a / b if op == "FloorDiv" else a % b
            raise Unsupported("// or % by a possibly negative symbolic divisor")
        raise Unsupported("binop %s on symbolic values" % op)

    def toreal(self, x):
        if isinstance(x, bool):
            return z3.RealVal(1 if x else 0)
        if isinstance(x, int):
            return z3.RealVal(x)
        if isinstance(x, float):
            return z3.RealVal(repr(x))
        if is_z3(x) and z3.is_int(x):
            return z3.ToReal(x)
        return x

    # ------------------------------------------------------------------ attribute access
    def getattr_(self, v, name, default=None, has_default=False):
        if isinstance(v, SOpt):
            if self.branch(v.is_none):
                if has_default:
                    return default
                raise PyRaise("AttributeError", "'NoneType' object has no attribute '%s'" % name)
            v = v.val
        if v is None:
            if has_default:
                return default
            raise PyRaise("AttributeError", "'NoneType' object has no attribute '%s'" % name)
        if isinstance(v, Obj):
            if name in v.attrs:
                return v.attrs[name]
            if name == "__class__":
                return v.cls
            m, owner = v.cls.lookup(name)
            if m is None:
                if has_default:
                    return default
                raise PyRaise("AttributeError", "'%s' object has no attribute '%s'" % (v.cls.name, name))
            return self.bind(v, m)
        if type(v).__name__ == "ModValRng" and name == "random":
            def rnd(it, a, k, _v=v):
                x = it.fresh_real("random")
                it.assume(z3.And(x >= 0, x < 1))
                _v.calls.append(x)
                return x
            return Builtin("Random.random", rnd)
        if isinstance(v, Tok):
            if getattr(v, "module_global", False):
                # a long-lived module-level object the engine does not look into: calling a mutating
                # method on it writes state that outlives the call (frame violation); its results are opaque
                def meth(it, a, k, _n=name, _v=v):
                    if _n in ("setdefault", "append", "add", "update", "pop", "clear", "extend", "insert", "remove",
                              "__setitem__", "popitem", "discard", "put", "cache_clear", "acquire", "release"):
                        it.events.append(("frame", "%s() on module-level object %s keeps state across calls" % (_n, _v.name), it.cur_line))
                    u = UTerm("call:%s.%s" % (_v.name, _n), list(a), "any")
                    u.from_module_global = True
                    return u
                return Builtin("%s.%s" % (v.name, name), meth)
            raise Unsupported("attribute %s of opaque token %s" % (name, v.name))
        if isinstance(v, SuperProxy):
            mro = v.obj.cls.mro()
            i = mro.index(v.after_cls)
            for c in mro[i + 1:]:
                if name in c.members:
                    return self.bind(v.obj, c.members[name])
            if name == "__init__":
                return Builtin("object.__init__", lambda it, a, k: None)
            raise PyRaise("AttributeError", "super has no attribute %s" % name)
        if isinstance(v, ClassVal):
            if name == "__name__":
                return v.name
            m, owner = v.lookup(name)
            if m is None:
                raise PyRaise("AttributeError", "type object '%s' has no attribute '%s'" % (v.name, name))
            if isinstance(m, ClassMethod):
                return BoundMethod(v, m.f)
            if isinstance(m, StaticMethod):
                return m.f
            return m
        if isinstance(v, ModVal):
            if name in v.attrs:
                return v.attrs[name]
            if getattr(v, "opaque", False):
                return Builtin(v.name + "." + name, lambda it, a, k, _n=v.name + "." + name: UTerm(_n, list(a) + [(kk, vv) for kk, vv in sorted(k.items())]))
            raise Unsupported("module attribute %s.%s" % (v.name, name))
        if isinstance(v, UTerm):
            if v.sort in ("str", "any"):
                return Builtin("str." + name, lambda it, a, k, _n=name: UTerm("str." + _n, [v] + list(a)))
            if v.sort == "list":
                if name in ("append", "extend", "sort", "pop", "insert", "remove", "clear", "reverse"):
                    raise Unsupported("mutation of an abstract list")
                return Builtin("list." + name, lambda it, a, k, _n=name: UTerm("list." + _n, [v] + list(a)))
            raise Unsupported("attribute %s of abstract value" % name)
        if isinstance(v, EnumMember):
            if name == "value":
                return v.value
            if name == "name":
                return v.name
        if isinstance(v, SEnum):
            if name == "value":
                return FinStr([m.value for m in v.members], v.idx)
            if name == "name":
                return FinStr([m.name for m in v.members], v.idx)
        if isinstance(v, DT):
            if name in DT.FIELDS:
                return getattr(v, name)
            if name == "date":
                return Builtin("datetime.date", lambda it, a, k: DateV(v.year, v.month, v.day))
            if name == "weekday":
                from spec import calendar as cal
                return Builtin("datetime.weekday", lambda it, a, k: cal.weekday(v.ordinal()))
            if name == "replace":
                def repl(it, a, k, _v=v):
                    if a:
                        raise Unsupported("datetime.replace with positional arguments")
                    vals = {f: getattr(_v, f) for f in DT.FIELDS}
                    for kk, vv in k.items():
                        if kk not in vals:
                            raise Unsupported("datetime.replace(%s=)" % kk)
                        vals[kk] = it.unwrap(vv, "TypeError", "an integer is required")
                    return models.make_datetime(it, [vals[f] for f in DT.FIELDS], {})
                return Builtin("datetime.replace", repl)
        if isinstance(v, DateV) and name in ("year", "month", "day"):
            return getattr(v, name)
        if isinstance(v, RD) and (name in RD.REL or name in RD.ABS):
            return getattr(v, name)
        if isinstance(v, TD) and name in ("days", "seconds", "microseconds"):
            return getattr(v, name)
        if isinstance(v, MatchVal):
            if name == "group":
                return Builtin("match.group", lambda it, a, k: it.match_group(v, a))
            if name in ("captures", "span", "start", "end"):
                raise Unsupported("match.%s" % name)
        if isinstance(v, Builtin) and name in getattr(v, "attrs", {}):
            return v.attrs[name]
        if isinstance(v, SymMap):
            return Builtin("dict." + name, lambda it, a, k, _n=name: it.symmap_method(v, _n, a, k))
        if isinstance(v, RegexVal):
            if name == "match":
                return Builtin("regex.match", lambda it, a, k: it.regex_match(v, a))
            raise Unsupported("regex.%s" % name)
        if isinstance(v, TMatch):
            if name == "group":
                return Builtin("match.group", lambda it, a, k: v.groups[a[0]] if a[0] in v.groups else it.raise_("IndexError", "no such group"))
            if name == "groups":
                # all groups of the pattern in order (1..n); a group that took no part is None
                n = max([i for i in v.groups if isinstance(i, int)] or [0])
                return Builtin("match.groups", lambda it, a, k: tuple(v.groups.get(i) for i in range(1, n + 1)))
            raise Unsupported("match.%s" % name)
        if isinstance(v, (str, FinStr, SStr, GroupVal, OpaqueStr, TStr)):
            return Builtin("str." + name, lambda it, a, k, _v=v, _n=name: it.str_method(_v, _n, a, k))
        if isinstance(v, FuncVal) and name == "__name__":
            return v.name
        if isinstance(v, (list, dict, tuple, set)):
            return Builtin(type(v).__name__ + "." + name, lambda it, a, k, _v=v, _n=name: it.container_method(_v, _n, a, k))
        if isinstance(v, ObjSeqElem):
            if name in v.attrs_of:
                return v.attrs_of[name](v.base)
            if has_default:
                return default
            raise Unsupported("attribute %s of an abstract list element" % name)
        if isinstance(v, ObjSeq):
            return Builtin("list." + name, lambda it, a, k, _v=v, _n=name: it.objseq_method(_v, _n, a, k))
        if isinstance(v, RRuleResult):
            raise Unsupported("rrule attribute %s" % name)
        if has_default:
            return default
        raise Unsupported("attribute %s of %r" % (name, type(v).__name__))

    def hash_(self, v):
        """hash(v) as a structure: Python hashes tuples / scalars by value (A-py); objects via __hash__"""
        if isinstance(v, tuple):
            return HashKey("tuple", [self.hash_(x) for x in v])
        if isinstance(v, SOpt) and isinstance(v.val, Obj):
            if self.branch(v.is_none):
                return HashKey("val", [None])
            v = v.val
        if isinstance(v, Obj):
            m, _ = v.cls.lookup("__hash__")
            if m is None:
                return HashKey("id", [v])
            r = self.call(BoundMethod(v, m), [], {})
            if not isinstance(r, HashKey):
                return HashKey("val", [r])
            return r
        if isinstance(v, (list, dict, set)):
            raise PyRaise("TypeError", "unhashable type")
        return HashKey("val", [v])

    def hash_equal(self, a, b):
        if a.kind != b.kind or len(a.items) != len(b.items):
            return False
        if a.kind == "tuple":
            return And(*[self.hash_equal(x, y) for x, y in zip(a.items, b.items)])
        if a.kind == "id":
            return a.items[0] is b.items[0]
        try:
            return self.eq(a.items[0], b.items[0])
        except Unsupported:
            return False          # equality of the hashed values cannot be established

    def raise_(self, cls, msg):
        raise PyRaise(cls, msg)

    def regex_match(self, rx, args):
        t = args[0]
        if isinstance(t, SOpt):
            t = self.unwrap(t, "TypeError", "expected string")
        if isinstance(t, (str, TStr, FinStr)):
            return tstr.tmatch(self, rx, t)
        raise Unsupported("regex match on %r" % type(t).__name__)

    def bind(self, obj, m):
        if isinstance(m, FuncVal):
            return BoundMethod(obj, m)
        if isinstance(m, Prop):
            return self.call(BoundMethod(obj, m.fget), [], {})
        if isinstance(m, ClassMethod):
            return BoundMethod(obj.cls, m.f)
        if isinstance(m, StaticMethod):
            return m.f
        return m

    def setattr_(self, v, name, value, node=None):
        if isinstance(v, SOpt):
            v = self.unwrap(v, "AttributeError", "'NoneType' object has no attribute '%s'" % name)
        if isinstance(v, Obj):
            if not v.fresh:
                self.events.append(("frame", "store to attribute '%s' of pre-existing object %s" % (name, v.label),
                                    getattr(node, "lineno", self.cur_line)))
            v.attrs[name] = value
            return
        raise Unsupported("attribute store on %r" % type(v).__name__)

    # ------------------------------------------------------------------ strings
    def match_group(self, mv, args):
        if len(args) != 1 or not isinstance(args[0], str):
            raise Unsupported("match.group with non-constant name")
        name = args[0]
        if name not in mv.present:
            raise PyRaise("IndexError", "no such group %r in pattern %d" % (name, mv.pm.pid))
        return SOpt(z3.Not(mv.present[name]), GroupVal(mv, name))

    def str_method(self, s, name, args, kwargs):
        if isinstance(s, str):
            if name == "format":
                return self.str_format(s, args, kwargs)
            if name == "join" and isinstance(args[0], UTerm):
                return UTerm("str.join", [s, args[0]])
            if name == "join":
                items = self.iterate(args[0])
                if all(isinstance(x, str) for x in items):
                    return s.join(items)
                for x in items:
                    if not isinstance(x, (str, FinStr, SStr, OpaqueStr, GroupVal)):
                        raise PyRaise("TypeError", "sequence item: expected str instance")
                return OpaqueStr("join")
            if all(not is_symbolic(a) and not isinstance(a, (Obj, GroupVal)) for a in args):
                try:
                    return getattr(s, name)(*args, **kwargs)
                except (TypeError, ValueError, IndexError, KeyError) as e:
                    raise PyRaise(type(e).__name__, str(e))
            raise Unsupported("str.%s with symbolic arguments" % name)
        if isinstance(s, TStr) or (isinstance(s, FinStr) and name == "split"):
            if name == "split" and not kwargs and len(args) <= 1 and all(isinstance(a, str) for a in args):
                return tstr.split(s, args[0] if args else None)
            if name == "startswith" and len(args) == 1 and isinstance(args[0], str):
                return tstr.startswith(s, args[0])
            if name == "format":
                return OpaqueStr("format")
            if name in ("strip", "lstrip", "rstrip") and not kwargs and len(args) <= 1 and all(isinstance(a, str) or a is None for a in args) \
                    and isinstance(s, TStr):
                return tstr.strip(s, args[0] if args else None, left=name != "rstrip", right=name != "lstrip")
            raise Unsupported("str.%s on a structured string" % name)
        if isinstance(s, FinStr):
            if name in ("lower", "upper", "strip", "title", "lstrip", "rstrip") and not args:
                return s.map(lambda x: getattr(x, name)())
            if name in ("startswith", "endswith") and len(args) == 1 and isinstance(args[0], (str, tuple)):
                return s.where(lambda x: getattr(x, name)(args[0]))
            if name == "format":
                return OpaqueStr("format")
            raise Unsupported("FinStr.%s" % name)
        if isinstance(s, GroupVal):
            st = self.group_text(s)
            return self.str_method(st, name, args, kwargs)
        if isinstance(s, SStr):
            if name == "lower" and not args:
                return SStr(s.t, True, s.stripped)
            if name == "strip" and not args:
                return SStr(s.t, s.lowered, True)
            if name == "startswith" and len(args) == 1 and isinstance(args[0], str) and args[0]:
                return z3.InRe(s.t, z3.Concat(*(self._sstr_lead(s) + [self._sstr_chars(s, c) for c in args[0]]
                                                + [z3.Full(z3.ReSort(z3.StringSort()))])))
            raise Unsupported("SStr.%s" % name)
        raise Unsupported("str method %s on untracked string" % name)

    def _sstr_lead(self, s):
        if s.stripped:
            return [z3.Star(z3.Union(*[z3.Re(z3.StringVal(c)) for c in WS_CHARS]))]
        return []

    def _sstr_chars(self, s, ch):
        if s.lowered:
            pre = sorted(x for x in case_variants(ch) if x.lower() == ch)
            if not pre:
                return z3.Empty(z3.ReSort(z3.StringSort()))
        else:
            pre = [ch]
        return z3.Union(*[z3.Re(z3.StringVal(x)) for x in pre]) if len(pre) > 1 else z3.Re(z3.StringVal(pre[0]))

    def group_text(self, g):
        """the text of a present group as SStr (language = the group's sub-pattern, A-regex)"""
        mv, name = g.mv, g.name
        if name not in mv.strs:
            t = z3.String("%s.%s.text" % (mv.tag, name))
            mv.strs[name] = SStr(t)
            self.assume(z3.InRe(t, mv.pm.group_reglan(name)))
        return mv.strs[name]

    def str_format(self, fmt, args, kwargs):
        try:
            fields = list(string.Formatter().parse(fmt))
        except ValueError as e:
            raise PyRaise("ValueError", str(e))
        out = []
        auto = 0
        concrete = True
        for lit, fname, spec, conv in fields:
            out.append(lit)
            if fname is None:
                continue
            if fname == "":
                key = auto
                auto += 1
            elif fname.isdigit():
                key = int(fname)
            else:
                key = fname
            if isinstance(key, int):
                if key >= len(args):
                    raise PyRaise("IndexError", "Replacement index %d out of range" % key)
                v = args[key]
            else:
                base = key.split(".")[0].split("[")[0]
                if base != key:
                    raise Unsupported("format field %s" % key)
                if key not in kwargs:
                    raise PyRaise("KeyError", key)
                v = kwargs[key]
            s = self.format_value(v, spec or "", conv)
            out.append(s)
        if all(isinstance(x, (str, TStr, FinStr)) for x in out):
            return tstr.concat(out)
        if any(isinstance(x, UTerm) for x in out) and all(isinstance(x, (str, UTerm)) for x in out):
            return UTerm("concat", [x for x in out if not (isinstance(x, str) and x == "")], "str")   # literal pieces and abstract texts, in order
        return OpaqueStr("format:" + fmt)

    def format_value(self, v, spec, conv):
        if conv == "r":
            v = self.call(self.world.builtins["repr"], [v], {})
        elif conv == "s":
            v = self.call(self.world.builtins["str"], [v], {})
        if spec == "":
            s = self.to_str(v)
            return s
        # a non-empty format spec: only numbers (and str for alignment specs) accept it
        if isinstance(v, SOpt):
            if self.branch(v.is_none):
                raise PyRaise("TypeError", "unsupported format string passed to NoneType.__format__")
            v = v.val
        if v is None:
            raise PyRaise("TypeError", "unsupported format string passed to NoneType.__format__")
        if isinstance(v, (int, float, str)) and not isinstance(v, bool):
            try:
                return format(v, spec)
            except (ValueError, TypeError) as e:
                raise PyRaise(type(e).__name__, str(e))
        if is_z3(v) and (z3.is_int(v) or z3.is_real(v)):
            kind = spec[-1] if spec else ""
            if kind == "d" and not z3.is_int(v):
                raise PyRaise("ValueError", "Unknown format code 'd' for object of type 'float'")
            if kind == "d" and z3.is_int(v) and (spec == "d" or (spec[0] == "0" and spec[1:-1].isdigit())):
                return self.digits(v, int(spec[1:-1]) if len(spec) > 1 else None)
            if kind in "dfeEgG%xXobn" or kind.isdigit():
                return OpaqueStr("num")
            raise PyRaise("ValueError", "Unknown format code")
        if isinstance(v, (FinStr, SStr, OpaqueStr, GroupVal, TStr)) or (isinstance(v, UTerm) and v.sort == "str"):
            if spec[-1:] in "dfeEgG%xXobn":
                raise PyRaise("ValueError", "Unknown format code for str")
            return OpaqueStr("str")
        if isinstance(v, (Obj, tuple, list, dict, UTerm, Tok)):
            raise PyRaise("TypeError", "unsupported format string passed to %s.__format__" % self.typeof(v))
        raise Unsupported("format of %r with spec %r" % (type(v).__name__, spec))

    def digits(self, v, width):
        try:
            return tstr.digits_field(self, v, width)
        except Unsupported:
            return OpaqueStr("negative number")

    def to_str(self, v):
        """str(v)"""
        if isinstance(v, SOpt):
            if self.branch(v.is_none):
                return "None"
            v = v.val
        if v is None or isinstance(v, (bool, int, float, str)):
            return str(v)
        if isinstance(v, (FinStr, SStr, OpaqueStr)):
            return v
        if isinstance(v, GroupVal):
            return self.group_text(v)
        if is_z3(v):
            if z3.is_int(v):
                return self.digits(v, None)
            return OpaqueStr("str(sym)")
        if isinstance(v, TStr):
            return v
        if isinstance(v, UTerm):
            return v if v.sort == "str" else OpaqueStr("str(abstract)")
        if isinstance(v, Tok):
            return OpaqueStr("str(token)")
        if isinstance(v, Obj):
            m, _ = v.cls.lookup("__str__")
            if m is None:
                m, _ = v.cls.lookup("__repr__")
            if m is None:
                return OpaqueStr("object")
            r = self.call(BoundMethod(v, m), [], {})
            if not isinstance(r, (str, FinStr, SStr, OpaqueStr, TStr)):
                raise PyRaise("TypeError", "__str__ returned non-string")
            return r
        if isinstance(v, (tuple, list, dict, set)):
            parts = [self.call(self.world.builtins["repr"], [x], {}) for x in (v if not isinstance(v, dict) else list(v.keys()) + list(v.values()))]
            if all(isinstance(p, str) for p in parts) and not isinstance(v, dict):
                if isinstance(v, tuple):
                    return "(" + ", ".join(parts) + ("," if len(parts) == 1 else "") + ")"
                if isinstance(v, list):
                    return "[" + ", ".join(parts) + "]"
            return OpaqueStr("container")
        if isinstance(v, EnumMember):
            return "%s.%s" % (v.cls.name, v.name)
        if isinstance(v, SEnum):
            return OpaqueStr("enum")
        if isinstance(v, (DT, DateV, RD, TD)):
            return OpaqueStr("datetime")
        if isinstance(v, (FuncVal, ClassVal, Builtin, BoundMethod)):
            return OpaqueStr("callable")
        raise Unsupported("str() of %r" % type(v).__name__)

    def container_method(self, c, name, args, kwargs):
        if isinstance(c, dict):
            if name == "get":
                k = args[0]
                d = args[1] if len(args) > 1 else None
                if is_symbolic(k) or isinstance(k, Obj):
                    return self.dict_lookup(c, k, default=(d,))
                return c.get(k, d)
            if name in ("items", "keys", "values"):
                return list(getattr(c, name)())
            if name == "update":
                c.update(*args, **kwargs)
                return None
        if isinstance(c, list):
            if name in ("append", "extend", "pop", "insert", "reverse", "index", "count", "copy"):
                if name == "extend":
                    c.extend(self.iterate(args[0]))
                    return None
                try:
                    return getattr(c, name)(*args)
                except (IndexError, ValueError) as e:
                    raise PyRaise(type(e).__name__, str(e))
            if name == "sort":
                self.list_sort(c, kwargs.get("key"), kwargs.get("reverse", False))
                return None
        if isinstance(c, tuple) and name in ("index", "count"):
            return getattr(c, name)(*args)
        if isinstance(c, set) and name in ("add",):
            return getattr(c, name)(*args)
        raise Unsupported("%s.%s" % (type(c).__name__, name))

    def symmap_method(self, m, name, a, k):
        if name == "get":
            kk = m.key(a[0])
            d = a[1] if len(a) > 1 else None
            if d is None:
                return SOpt(z3.Not(z3.Select(m.dom, kk)), z3.Select(m.val, kk))
            return If(z3.Select(m.dom, kk), z3.Select(m.val, kk), self.toreal(d))
        if name == "setdefault":
            kk = m.key(a[0])
            d = self.toreal(a[1])
            newv = If(z3.Select(m.dom, kk), z3.Select(m.val, kk), d)
            m.val = z3.Store(m.val, kk, newv)
            m.dom = z3.Store(m.dom, kk, z3.BoolVal(True))
            return newv
        if name == "pop" or name == "clear" or name == "update":
            raise Unsupported("dict.%s on a symbolic map" % name)
        raise Unsupported("dict.%s on a symbolic map" % name)

    def objseq_method(self, seq, name, args, kwargs):
        """methods of a list of symbolic length.  sort: TRUSTED contract of list.sort (A-py) -- the new order is
        the old one composed with a permutation pi of 0..n-1 under which the keys ascend"""
        if name != "sort" or args or set(kwargs) - {"key", "reverse"}:
            raise Unsupported("list.%s on a list of symbolic length" % name)
        if kwargs.get("reverse", False) is not False:
            raise Unsupported("reverse sort of a list of symbolic length")
        if not seq.fresh:
            self.events.append(("frame", "sort of a list the call did not allocate", self.cur_line))
        key = kwargs.get("key")
        k = len(seq.sorts)
        pi = z3.Function("%s.pi%d" % (seq.name, k), z3.IntSort(), z3.IntSort())
        inv = z3.Function("%s.pi%d.inv" % (seq.name, k), z3.IntSort(), z3.IntSort())
        old_ix = seq.ix
        b = z3.Int("%s.b%d" % (seq.name, k))
        probe = ObjSeqElem(seq, b)
        kt = self.call(key, [probe], {}) if key is not None else None
        kts = list(kt) if isinstance(kt, tuple) else [kt]
        if kt is None or not kts or not all(is_z3(x) or isinstance(x, (int, float)) for x in kts):
            raise Unsupported("sort key of an abstract list element is not an arithmetic term (or a tuple of such)")

        def key_of(base):
            return tuple(z3.substitute(x, (b, base)) if is_z3(x) else x for x in kts)

        def le(x, y):
            # tuples compare lexicographically
            out = True
            for xi, yi in reversed(list(zip(x, y))):
                out = z3.Or(xi < yi, z3.And(xi == yi, out))
            return out
        i, j = z3.Ints("%s.i%d %s.j%d" % (seq.name, k, seq.name, k))
        n = seq.n
        rng = lambda x: z3.And(x >= 0, x < n)
        self.assume(z3.ForAll([i], z3.Implies(rng(i), z3.And(rng(pi(i)), inv(pi(i)) == i)), patterns=[pi(i)]))
        self.assume(z3.ForAll([j], z3.Implies(rng(j), z3.And(rng(inv(j)), pi(inv(j)) == j)), patterns=[inv(j)]))
        new_ix = lambda x, _o=old_ix, _p=pi: _o(_p(x))
        self.assume(z3.ForAll([i, j], z3.Implies(z3.And(rng(i), rng(j), i <= j), le(key_of(new_ix(i)), key_of(new_ix(j)))),
                              patterns=[z3.MultiPattern(pi(i), pi(j))]))
        seq.ix = new_ix
        seq.sorts.append((pi, inv, key_of))
        return None

    def list_sort(self, lst, key, reverse):
        """list.sort: stable insertion sort on a list of known length; symbolic comparisons fork"""
        if reverse not in (False, True):
            raise Unsupported("symbolic reverse flag")
        if id(lst) in self.world.global_container_ids:
            self.events.append(("frame", "sort of a module-level list", self.cur_line))
        items = [(self.call(key, [x], {}) if key is not None else x, x) for x in lst]
        out = []
        for k, x in items:
            pos = len(out)
            while pos > 0:
                kp = out[pos - 1][0]
                # move left while the new key is strictly smaller (stable); reverse: strictly greater
                lt = self.truthy(self.order("<", kp, k) if reverse else self.order("<", k, kp))
                if self.branch(lt):
                    pos -= 1
                else:
                    break
            out.insert(pos, (k, x))
        lst[:] = [x for k, x in out]

    # ------------------------------------------------------------------ subscripts
    def dict_lookup(self, d, key, default=None):
        """d[key] for a symbolic key; default=(value,) makes it d.get"""
        keys = list(d.keys())
        conds = [self.eq(key, k) for k in keys]
        vals = [d[k] for k in keys]
        miss = Not(Or(*conds)) if conds else True
        # merge when all values are tuples of ints of one shape / ints
        def flat(v):
            if isinstance(v, int) and not isinstance(v, bool):
                return [v]
            if isinstance(v, tuple) and all(isinstance(x, int) and not isinstance(x, bool) for x in v):
                return list(v)
            return None
        shapes = [flat(v) for v in vals]
        mergeable = vals and all(s is not None for s in shapes) and len({(type(v), len(s)) for v, s in zip(vals, shapes)}) == 1
        if self.branch(miss):
            if default is not None:
                return default[0]
            raise PyRaise("KeyError", "key not in dict")
        if mergeable:
            n = len(shapes[0])
            outs = []
            for j in range(n):
                t = shapes[-1][j]
                for c, s in zip(reversed(conds[:-1]), reversed(shapes[:-1])):
                    t = If(c, s[j], t)
                outs.append(self.simp(t))
            return tuple(outs) if isinstance(vals[0], tuple) else outs[0]
        for c, v in zip(conds, vals):
            if self.branch(c):
                return v
        raise Abort()

    def subscript(self, v, idx):
        if isinstance(v, SOpt):
            v = self.unwrap(v, "TypeError", "'NoneType' object is not subscriptable")
        if v is None:
            raise PyRaise("TypeError", "'NoneType' object is not subscriptable")
        if isinstance(v, SymSeq):
            idx = self.unwrap(idx)
            if isinstance(idx, slice):
                raise Unsupported("slice of an abstract sequence")
            if self.branch(Not(And(idx >= -v.n, idx < v.n))):
                raise PyRaise("IndexError", "index out of range")
            if self.branch(idx < 0):
                idx = idx + v.n
            return SymElem(v, self.simp(idx))
        if isinstance(v, ObjSeq):
            idx = self.unwrap(idx)
            if isinstance(idx, slice):
                raise Unsupported("slice of an abstract sequence")
            if self.branch(Not(And(idx >= -v.n, idx < v.n))):
                raise PyRaise("IndexError", "list index out of range")
            if self.branch(idx < 0):
                idx = idx + v.n
            return ObjSeqElem(v, self.simp(v.ix(self.simp(idx))))
        if isinstance(v, SymMap):
            kk = v.key(idx)
            if self.branch(z3.Not(z3.Select(v.dom, kk))):
                raise PyRaise("KeyError", "key not in dict")
            return z3.Select(v.val, kk)
        if isinstance(v, dict):
            if is_symbolic(idx) or isinstance(idx, (Obj, SOpt)):
                return self.dict_lookup(v, idx)
            try:
                return v[idx]
            except KeyError:
                raise PyRaise("KeyError", repr(idx))
            except TypeError as e:
                raise Unsupported("dict key: %s" % e)
        if isinstance(v, (tuple, list, str)):
            if isinstance(idx, slice):
                if any(is_z3(x) for x in (idx.start, idx.stop, idx.step)):
                    raise Unsupported("symbolic slice")
                return v[idx]
            if isinstance(idx, int):
                try:
                    return v[idx]
                except IndexError:
                    raise PyRaise("IndexError", "index out of range")
            if is_z3(idx):
                n = len(v)
                if self.branch(Not(And(idx >= -n, idx < n))):
                    raise PyRaise("IndexError", "index out of range")
                for i in range(-n, n):
                    if self.branch(idx == i):
                        return v[i]
                raise Abort()
            raise PyRaise("TypeError", "indices must be integers")
        if isinstance(v, UTerm) and v.sort in ("str", "any", "list"):
            if isinstance(idx, slice):
                return UTerm("slice", [v, idx.start, idx.stop, idx.step], v.sort)
            return UTerm("index", [v, idx], "any")
        if isinstance(v, TStr):
            if isinstance(idx, slice):
                return tstr.slice_(v, idx)
            raise Unsupported("index into structured string")
        if isinstance(v, RRuleResult):
            if idx == 0:
                return v.first
            raise Unsupported("rrule index")
        if isinstance(v, FinStr) and isinstance(idx, (int, slice)):
            try:
                return v.map(lambda s: s[idx])
            except IndexError:
                raise Unsupported("FinStr index")
        raise Unsupported("subscript of %r" % type(v).__name__)

    def iterate(self, v):
        if isinstance(v, SOpt):
            v = self.unwrap(v, "TypeError", "'NoneType' object is not iterable")
        if v is None:
            raise PyRaise("TypeError", "'NoneType' object is not iterable")
        if isinstance(v, (list, tuple)):
            return list(v)
        if isinstance(v, dict):
            return list(v.keys())
        if isinstance(v, (set, frozenset)):
            return sorted(v, key=repr)
        if isinstance(v, range):
            return list(v)
        if isinstance(v, str):
            return list(v)
        raise Unsupported("iteration over %r" % type(v).__name__)

    # ------------------------------------------------------------------ calls
    def call(self, f, args, kwargs):
        self.depth += 1
        if self.depth > self.MAX_CALL_DEPTH:
            raise Unsupported("call depth")
        try:
            return self._call(f, args, kwargs)
        finally:
            self.depth -= 1

    def _call(self, f, args, kwargs):
        if isinstance(f, SOpt):
            f = self.unwrap(f, "TypeError", "'NoneType' object is not callable")
        if isinstance(f, SymElem):
            app = getattr(self, "apply_elem", None)
            if app is None:
                raise Unsupported("call of an abstract sequence element")
            return app(self, f, args, kwargs)
        if isinstance(f, Builtin):
            if f.name in ("list", "set", "sorted", "tuple", "reversed") and args and isinstance(args[0], UTerm):
                return UTerm(f.name, list(args) + [(k, repr(v)) for k, v in sorted(kwargs.items())])
            return f.fn(self, list(args), dict(kwargs))
        if isinstance(f, BoundMethod):
            return self._call(f.func, [f.self_] + list(args), kwargs)
        if isinstance(f, FuncVal):
            c = self.contracts.get(f.qualname)
            if c is not None:
                return c(self, f, list(args), dict(kwargs))
            return self.call_function(f, args, kwargs)
        if isinstance(f, ClassVal):
            return self.instantiate(f, args, kwargs)
        if isinstance(f, ExtType):
            if f.name in ("list", "set", "tuple") and args and isinstance(args[0], UTerm):
                return UTerm(f.name, list(args))
            if f.fn is not None:
                return f.fn(self, list(args), dict(kwargs))
            raise Unsupported("call of type %s" % f.name)
        if f is None:
            raise PyRaise("TypeError", "'NoneType' object is not callable")
        raise Unsupported("call of %r" % (f,))

    def instantiate(self, cls, args, kwargs):
        if cls.is_enum:
            if len(args) != 1:
                raise PyRaise("TypeError", "enum call")
            v = args[0]
            ms = cls.enum_members()
            if isinstance(v, FinStr):
                ok = Or(*[self.eq(v, m.value) for m in ms])
                if self.branch(Not(ok)):
                    raise PyRaise("ValueError", "not a valid %s" % cls.name)
                idx = self.fresh_int("enum")
                self.assume(And(idx >= 0, idx < len(ms)))
                for i, m in enumerate(ms):
                    self.assume(z3.Implies(idx == i, self.eq(v, m.value)))
                return SEnum(cls, idx)
            for m in ms:
                if m.value == v:
                    return m
            raise PyRaise("ValueError", "%r is not a valid %s" % (v, cls.name))
        o = Obj(cls, fresh=True)
        init, owner = cls.lookup("__init__")
        if init is not None:
            r = self.call(BoundMethod(o, init), args, kwargs)
            if r is not None:
                raise PyRaise("TypeError", "__init__() should return None")
        elif args or kwargs:
            raise PyRaise("TypeError", "%s() takes no arguments" % cls.name)
        return o

    def bind_args(self, f, args, kwargs):
        a = f.node.args
        params = [x.arg for x in getattr(a, "posonlyargs", [])] + [x.arg for x in a.args]
        defaults = a.defaults
        env = {}
        args = list(args)
        kwargs = dict(kwargs)
        npos = len(params)
        for i, p in enumerate(params):
            if i < len(args):
                if p in kwargs:
                    raise PyRaise("TypeError", "%s() got multiple values for argument '%s'" % (f.name, p))
                env[p] = args[i]
            elif p in kwargs:
                env[p] = kwargs.pop(p)
            else:
                di = i - (npos - len(defaults))
                if di >= 0:
                    env[p] = self.eval_default(f, defaults[di])
                else:
                    raise PyRaise("TypeError", "%s() missing required argument '%s'" % (f.name, p))
        extra = args[npos:]
        if a.vararg:
            env[a.vararg.arg] = tuple(extra)
        elif extra:
            raise PyRaise("TypeError", "%s() takes %d positional arguments but %d were given" % (f.name, npos, len(args)))
        for i, p in enumerate(a.kwonlyargs):
            if p.arg in kwargs:
                env[p.arg] = kwargs.pop(p.arg)
            elif a.kw_defaults[i] is not None:
                env[p.arg] = self.eval_default(f, a.kw_defaults[i])
            else:
                raise PyRaise("TypeError", "%s() missing keyword-only argument '%s'" % (f.name, p.arg))
        if a.kwarg:
            env[a.kwarg.arg] = kwargs
        elif kwargs:
            raise PyRaise("TypeError", "%s() got an unexpected keyword argument '%s'" % (f.name, sorted(kwargs)[0]))
        return env

    def eval_default(self, f, node):
        # Python evaluates default expressions once, when the def statement runs (import time)
        fr = Frame(f, f.env)
        old = getattr(self, "phase", "call")
        self.phase = "import"
        try:
            return self.eval(node, fr)
        finally:
            self.phase = old

    def call_function(self, f, args, kwargs):
        fr = Frame(f, f.env)
        fr.vars.update(self.bind_args(f, args, kwargs))
        if isinstance(f.node, ast.Lambda):
            return self.eval(f.node.body, fr)
        is_gen = self.world.is_generator(f.node)
        if is_gen:
            mk = getattr(self, "yield_container", None)
            fr.yielded = mk(f) if mk is not None else []
        try:
            self.exec_block(f.node.body, fr)
            rv = None
        except ReturnSig as r:
            rv = r.value
        if is_gen:
            return fr.yielded
        return rv

    # ------------------------------------------------------------------ statements
    def exec_block(self, stmts, fr):
        for s in stmts:
            self.exec(s, fr)

    def exec(self, s, fr):
        self.cur_line = getattr(s, "lineno", self.cur_line)
        m = getattr(self, "x_" + type(s).__name__, None)
        if m is None:
            raise Unsupported("statement %s (line %s)" % (type(s).__name__, getattr(s, "lineno", "?")))
        try:
            return m(s, fr)
        except PyRaise as e:
            if e.lineno is None:
                e.lineno = getattr(s, "lineno", None)
            raise

    def exec_fragment(self, stmts, fr):
        """execute a fragment of a function body (a loop body, a block) in a frame whose locals a contract unit
        provides by name.  A name the fragment uses but the unit did not provide means the code no longer has
        the shape the unit was written for (locals renamed, block restructured): nothing is decided then."""
        try:
            if isinstance(stmts, list):
                return self.exec_block(stmts, fr)
            return self.exec(stmts, fr)
        except PyRaise as e:
            if e.cls in ("NameError", "UnboundLocalError"):
                raise Unsupported("fragment of %s uses a local the contract unit does not provide (%s): the code no longer has "
                                  "the shape this unit was written for" % (getattr(fr.func, "qualname", "?"), e.msg if hasattr(e, "msg") else e))
            raise

    def x_Pass(self, s, fr):
        pass

    def x_Expr(self, s, fr):
        if self.world.is_logger_call(s.value):
            # the call itself is dropped (A-log); its arguments are evaluated without forking, so an
            # exception they raise unconditionally on this path is seen
            args = list(s.value.args) + [k.value for k in s.value.keywords]

            def thunk():
                try:
                    for a in args:
                        self.eval(a, fr)
                except PyRaise as e:
                    if e.lineno is not None:
                        # raised inside a function the arguments call (__repr__/__str__ of a value the
                        # unit's setup models only partially): not decided here, stays dropped
                        raise Impure()
                    raise
            self.try_pure(thunk, propagate_raise=True, tolerate_unsupported=True)
            return
        if isinstance(s.value, ast.Constant):
            return
        self.eval(s.value, fr)

    def x_Return(self, s, fr):
        raise ReturnSig(self.eval(s.value, fr) if s.value is not None else None)

    def x_Assign(self, s, fr):
        v = self.eval(s.value, fr)
        for t in s.targets:
            self.assign(t, v, fr)

    def x_AnnAssign(self, s, fr):
        if s.value is not None:
            self.assign(s.target, self.eval(s.value, fr), fr)

    def x_AugAssign(self, s, fr):
        if isinstance(s.target, ast.Name):
            cur = self.eval(ast.Name(id=s.target.id, ctx=ast.Load()), fr)
            v = self.binop(type(s.op).__name__, cur, self.eval(s.value, fr))
            self.assign(s.target, v, fr)
        elif isinstance(s.target, ast.Attribute):
            o = self.eval(s.target.value, fr)
            cur = self.getattr_(o, s.target.attr)
            v = self.binop(type(s.op).__name__, cur, self.eval(s.value, fr))
            self.setattr_(o, s.target.attr, v, s)
        elif isinstance(s.target, ast.Subscript):
            o = self.eval(s.target.value, fr)
            i = self.eval_index(s.target.slice, fr)
            cur = self.subscript(o, i)
            v = self.binop(type(s.op).__name__, cur, self.eval(s.value, fr))
            self.store_subscript(o, i, v, s)
        else:
            raise Unsupported("augmented assignment target")

    def assign(self, t, v, fr):
        if isinstance(t, ast.Name):
            if t.id in fr.globals_decl:
                self.events.append(("frame", "store to module global '%s'" % t.id, getattr(t, "lineno", None)))
                fr.func.module.globals[t.id] = v
                return
            if t.id in fr.nonlocals:
                f = fr.parent
                while f is not None:
                    if t.id in f.vars:
                        f.vars[t.id] = v
                        return
                    f = f.parent
            fr.vars[t.id] = v
        elif isinstance(t, (ast.Tuple, ast.List)):
            items = self.iterate(v)
            if any(isinstance(e, ast.Starred) for e in t.elts):
                raise Unsupported("starred assignment")
            if len(items) != len(t.elts):
                raise PyRaise("ValueError", "not enough / too many values to unpack")
            for e, x in zip(t.elts, items):
                self.assign(e, x, fr)
        elif isinstance(t, ast.Attribute):
            o = self.eval(t.value, fr)
            self.setattr_(o, t.attr, v, t)
        elif isinstance(t, ast.Subscript):
            o = self.eval(t.value, fr)
            i = self.eval_index(t.slice, fr)
            self.store_subscript(o, i, v, t)
        else:
            raise Unsupported("assignment target %s" % type(t).__name__)

    def store_subscript(self, o, i, v, node):
        if isinstance(o, UTerm):
            if getattr(o, "from_module_global", False):
                self.events.append(("frame", "store into an object obtained from module-level state (%s)" % o.fn, getattr(node, "lineno", None)))
                return
            raise Unsupported("subscript store on abstract value")
        if isinstance(o, Tok) and getattr(o, "module_global", False):
            self.events.append(("frame", "store into module-level object %s" % o.name, getattr(node, "lineno", None)))
            return
        if isinstance(o, SymMap):
            kk = o.key(i)
            o.val = z3.Store(o.val, kk, self.toreal(v))
            o.dom = z3.Store(o.dom, kk, z3.BoolVal(True))
            return
        if isinstance(o, (list, dict)):
            if id(o) in self.world.global_container_ids:
                self.events.append(("frame", "store into module-level container", getattr(node, "lineno", None)))
            if is_symbolic(i):
                raise Unsupported("symbolic subscript store")
            try:
                o[i] = v
            except IndexError:
                raise PyRaise("IndexError", "list assignment index out of range")
            return
        raise Unsupported("subscript store on %r" % type(o).__name__)

    def x_If(self, s, fr):
        c = self.truthy(self.eval(s.test, fr))
        if self.branch(c):
            self.exec_block(s.body, fr)
        else:
            self.exec_block(s.orelse, fr)

    def x_For(self, s, fr):
        items = self.iterate(self.eval(s.iter, fr))
        broke = False
        for x in items:
            self.assign(s.target, x, fr)
            try:
                self.exec_block(s.body, fr)
            except BreakSig:
                broke = True
                break
            except ContinueSig:
                continue
        if not broke:
            self.exec_block(s.orelse, fr)

    def x_While(self, s, fr):
        lc = self.loop_contract(fr, s)
        n = 0
        while True:
            c = self.truthy(self.eval(s.test, fr))
            if is_z3(c) or lc is not None:
                if lc is None:
                    raise Unsupported("while loop with symbolic condition needs an invariant (line %d)" % s.lineno)
                return self.while_with_invariant(s, fr, lc)
            if not c:
                break
            n += 1
            if n > 10000:
                raise Unsupported("loop bound")
            try:
                self.exec_block(s.body, fr)
            except BreakSig:
                return
            except ContinueSig:
                continue
        self.exec_block(s.orelse, fr)

    # ------------------------------------------------------------------ loops with invariants
    def loop_contract(self, fr, node):
        lcs = getattr(self, "loop_contracts", None)
        if not lcs:
            return None
        f = fr.func
        whiles = sorted((n for n in ast.walk(f.node) if isinstance(n, ast.While)), key=lambda n: (n.lineno, n.col_offset))
        k = whiles.index(node) if node in whiles else -1
        return lcs.get((f.qualname, k))

    def assert_ob(self, name, goal, props):
        """an obligation that must hold at this program point on this path (checked now)"""
        log = self.__dict__.setdefault("ob_log", [])
        if goal is True:
            log.append((name, props, "unsat", None))
            return
        g = z3.BoolVal(False) if goal is False else goal
        self.solver.push()
        self.solver.set("timeout", 60000)
        self.solver.add(z3.Not(g))
        r = self.solver.check()
        model = self.solver.model() if r == z3.sat else None
        self.solver.pop()
        self.solver.set("timeout", 4000)
        log.append((name, props, "unsat" if r == z3.unsat else ("sat" if r == z3.sat else "unknown"), model))

    def havoc_loop_state(self, s, fr, tag):
        names = set()
        for n in ast.walk(ast.Module(body=s.body, type_ignores=[])):
            if isinstance(n, ast.Name) and isinstance(n.ctx, ast.Store):
                names.add(n.id)
        for nm in sorted(names):
            v, ok = fr.lookup(nm)
            if not ok:
                continue
            if isinstance(v, bool) or not (isinstance(v, int) or (is_z3(v) and z3.is_int(v))):
                raise Unsupported("loop modifies '%s' of a kind the engine cannot havoc" % nm)
            fr.vars[nm] = self.fresh_int("%s@%s" % (nm, tag))
        g = self.gen_frame(fr)
        if g is not None and isinstance(g.yielded, PairSeq) and any(isinstance(n, ast.Yield) for n in ast.walk(ast.Module(body=s.body, type_ignores=[]))):
            self.nfresh += 1
            g.yielded = PairSeq("%s@%s!%d" % (g.yielded.name.split("@")[0], tag, self.nfresh))
            self.assume(g.yielded.n >= 0)
        has_yield = any(isinstance(n, ast.Yield) for n in ast.walk(ast.Module(body=s.body, type_ignores=[])))
        for gname, gv in list(self.ghost.get("state", {}).items() if has_yield else []):
            self.nfresh += 1
            self.ghost["state"][gname] = z3.Array("%s@%s!%d" % (gname, tag, self.nfresh), z3.IntSort(), z3.IntSort())

    def gen_frame(self, fr):
        f = fr
        while f is not None and f.yielded is None:
            f = f.parent
        return f

    def while_with_invariant(self, s, fr, lc):
        """cut-point rule: establish the invariant, then either (a) an arbitrary iteration preserves
        it (path is cut there) or (b) leave the loop from an arbitrary state satisfying inv and not cond"""
        tag = "L%d" % s.lineno
        # obligations are named by the ordinal of the loop in its function (stable under edits elsewhere in the file)
        whiles = sorted((n for n in ast.walk(fr.func.node) if isinstance(n, ast.While)), key=lambda n: (n.lineno, n.col_offset))
        loopname = "loop#%d" % (whiles.index(s) + 1 if s in whiles else 0)
        for cname, goal in lc.invariant(self, fr):
            self.assert_ob("%s:inv-init:%s" % (loopname, cname), goal, lc.props)
        self.havoc_loop_state(s, fr, tag)
        for cname, goal in lc.invariant(self, fr):
            self.assume(goal if goal is not True else True)
        c = self.truthy(self.eval(s.test, fr))
        if self.branch(c):
            v0 = lc.variant(self, fr) if lc.variant else None
            try:
                self.exec_block(s.body, fr)
            except ContinueSig:
                pass
            except BreakSig:
                raise Unsupported("break inside a loop with invariant")
            if getattr(lc, "hints", None):
                # ground instances of quantified facts that are already assumed on this path
                for h in lc.hints(self, fr):
                    self.assume(h)
            for cname, goal in lc.invariant(self, fr):
                self.assert_ob("%s:inv-preserved:%s" % (loopname, cname), goal, lc.props)
            if v0 is not None:
                v1 = lc.variant(self, fr)
                self.assert_ob("%s:variant-decreases" % loopname, z3.And(v0 >= 0, v1 < v0), lc.props)
            self.cut = True
            raise Abort()
        if s.orelse:
            self.exec_block(s.orelse, fr)

    def x_Break(self, s, fr):
        raise BreakSig()

    def x_Continue(self, s, fr):
        raise ContinueSig()

    def x_FunctionDef(self, s, fr):
        fr.vars[s.name] = FuncVal(s, fr.func.module, env=fr, qualname=fr.func.qualname + "." + s.name)

    def x_Global(self, s, fr):
        fr.globals_decl.update(s.names)

    def x_Nonlocal(self, s, fr):
        fr.nonlocals.update(s.names)

    def x_Raise(self, s, fr):
        if s.exc is None:
            raise Unsupported("bare raise")
        e = s.exc
        if isinstance(e, ast.Call):
            name = e.func.id if isinstance(e.func, ast.Name) else getattr(e.func, "attr", "?")
        elif isinstance(e, ast.Name):
            name = e.id
        else:
            raise Unsupported("raise expression")
        raise PyRaise(name, "raised by the program", getattr(s, "lineno", None))

    def x_Assert(self, s, fr):
        c = self.truthy(self.eval(s.test, fr))
        if self.branch(Not(c)):
            raise PyRaise("AssertionError", "assert failed", s.lineno)

    def x_Try(self, s, fr):
        if s.finalbody:
            raise Unsupported("try/finally")
        try:
            self.exec_block(s.body, fr)
        except PyRaise as e:
            for h in s.handlers:
                if self.handler_matches(h, e, fr):
                    if h.name:
                        fr.vars[h.name] = e
                    self.exec_block(h.body, fr)
                    return
            raise
        else:
            self.exec_block(s.orelse, fr)

    def handler_matches(self, h, e, fr):
        if h.type is None:
            return True
        names = []
        ts = h.type.elts if isinstance(h.type, ast.Tuple) else [h.type]
        for t in ts:
            names.append(t.id if isinstance(t, ast.Name) else getattr(t, "attr", "?"))
        return any(self.world.exc_isinstance(e.cls, n) for n in names)

    def x_With(self, s, fr):
        # context managers of external libraries (bz2.open, open): the managed value is opaque
        for item in s.items:
            v = self.eval(item.context_expr, fr)
            if not isinstance(v, (UTerm, Tok)):
                raise Unsupported("with-statement over a repo object")
            if item.optional_vars is not None:
                self.assign(item.optional_vars, v, fr)
        self.exec_block(s.body, fr)

    def x_Delete(self, s, fr):
        raise Unsupported("del")

    def x_Import(self, s, fr):
        raise Unsupported("import inside function")

    x_ImportFrom = x_Import

    # ------------------------------------------------------------------ expressions
    def eval(self, e, fr):
        m = getattr(self, "e_" + type(e).__name__, None)
        if m is None:
            raise Unsupported("expression %s" % type(e).__name__)
        return m(e, fr)

    def e_Constant(self, e, fr):
        return e.value

    def e_Name(self, e, fr):
        v, ok = fr.lookup(e.id)
        if ok:
            return v
        mod = fr.func.module
        if e.id in mod.globals:
            return mod.globals[e.id]
        if e.id in self.world.builtins:
            return self.world.builtins[e.id]
        if e.id in getattr(mod, "imported_names", ()):
            raise Unsupported("imported name '%s' has no model in the engine" % e.id)
        if e.id in fr.func.node_locals():
            raise PyRaise("UnboundLocalError", "local variable '%s' referenced before assignment" % e.id,
                          getattr(e, "lineno", None))
        import builtins as _py_builtins
        if hasattr(_py_builtins, e.id):
            # a Python builtin the engine has no model of: not an error of the program
            raise Unsupported("builtin '%s' has no model in the engine" % e.id)
        raise PyRaise("NameError", "name '%s' is not defined" % e.id, getattr(e, "lineno", None))

    def e_Attribute(self, e, fr):
        return self.getattr_(self.eval(e.value, fr), e.attr)

    def eval_index(self, sl, fr):
        if isinstance(sl, ast.Slice):
            lo = self.eval(sl.lower, fr) if sl.lower is not None else None
            hi = self.eval(sl.upper, fr) if sl.upper is not None else None
            st = self.eval(sl.step, fr) if sl.step is not None else None
            return slice(lo, hi, st)
        return self.eval(sl, fr)

    def e_Subscript(self, e, fr):
        return self.subscript(self.eval(e.value, fr), self.eval_index(e.slice, fr))

    def e_Tuple(self, e, fr):
        return tuple(self.eval_elts(e.elts, fr))

    def e_List(self, e, fr):
        return list(self.eval_elts(e.elts, fr))

    def e_Set(self, e, fr):
        return set(self.eval_elts(e.elts, fr))

    def eval_elts(self, elts, fr):
        out = []
        for x in elts:
            if isinstance(x, ast.Starred):
                out.extend(self.iterate(self.eval(x.value, fr)))
            else:
                out.append(self.eval(x, fr))
        return out

    def e_Dict(self, e, fr):
        d = {}
        for k, v in zip(e.keys, e.values):
            if k is None:
                d.update(self.eval(v, fr))
            else:
                kk = self.eval(k, fr)
                if is_symbolic(kk):
                    raise Unsupported("symbolic dict key in display")
                d[kk] = self.eval(v, fr)
        return d

    def e_JoinedStr(self, e, fr):
        parts = []
        for v in e.values:
            if isinstance(v, ast.Constant):
                parts.append(v.value)
            else:
                spec = ""
                if v.format_spec is not None:
                    spec = self.eval(v.format_spec, fr)
                conv = {-1: None, 115: "s", 114: "r", 97: "a"}[v.conversion]
                parts.append(self.format_value(self.eval(v.value, fr), spec, conv))
        if all(isinstance(p, str) for p in parts):
            return "".join(parts)
        # same result values as str.format: structured strings / abstract concatenations where the pieces allow it
        if all(isinstance(x, (str, TStr, FinStr)) for x in parts):
            return tstr.concat(parts)
        if any(isinstance(x, UTerm) for x in parts) and all(isinstance(x, (str, UTerm)) for x in parts):
            return UTerm("concat", [x for x in parts if not (isinstance(x, str) and x == "")], "str")
        return OpaqueStr("fstring")

    def e_Lambda(self, e, fr):
        return FuncVal(e, fr.func.module, env=fr, qualname=fr.func.qualname + ".<lambda>")

    def e_IfExp(self, e, fr):
        c = self.truthy(self.eval(e.test, fr))
        if isinstance(c, bool):
            return self.eval(e.body if c else e.orelse, fr)
        # try to merge scalar results
        ok1, a = self.try_pure(lambda: self.eval(e.body, fr))
        ok2, b = self.try_pure(lambda: self.eval(e.orelse, fr)) if ok1 else (False, None)
        if ok1 and ok2:
            m = self.merge(c, a, b)
            if m is not NotImplemented:
                return m
        if self.branch(c):
            return self.eval(e.body, fr)
        return self.eval(e.orelse, fr)

    def merge(self, c, a, b):
        scalar = lambda x: isinstance(x, (bool, int)) or (is_z3(x) and (z3.is_int(x) or z3.is_bool(x)))
        if scalar(a) and scalar(b):
            ba = isinstance(a, bool) or (is_z3(a) and z3.is_bool(a))
            bb = isinstance(b, bool) or (is_z3(b) and z3.is_bool(b))
            if ba == bb:
                return If(c, a, b)
        if a is None and b is None:
            return None
        return NotImplemented

    def e_UnaryOp(self, e, fr):
        v = self.eval(e.operand, fr)
        if isinstance(e.op, ast.Not):
            return Not(self.truthy(v))
        v = self.unwrap(v, "TypeError", "bad operand type for unary op: 'NoneType'")
        if isinstance(e.op, ast.USub):
            return -v
        if isinstance(e.op, ast.UAdd):
            return v
        raise Unsupported("unary op")

    def e_BinOp(self, e, fr):
        return self.binop(type(e.op).__name__, self.eval(e.left, fr), self.eval(e.right, fr))

    def e_BoolOp(self, e, fr):
        is_and = isinstance(e.op, ast.And)
        vals = e.values

        def rec(i):
            v = self.eval(vals[i], fr)
            if i == len(vals) - 1:
                return v
            t = self.truthy(v)
            if isinstance(t, bool):
                if t == is_and:
                    return rec(i + 1)
                return v
            # symbolic left operand: merge when the rest is a pure Boolean, else fork
            boolish = isinstance(v, bool) or (is_z3(v) and z3.is_bool(v))
            if boolish:
                ok, rest = self.try_pure(lambda: rec(i + 1))
                if ok and (isinstance(rest, bool) or (is_z3(rest) and z3.is_bool(rest))):
                    return And(t, rest) if is_and else Or(t, rest)
            if self.branch(t):
                return rec(i + 1) if is_and else v
            return v if is_and else rec(i + 1)
        return rec(0)

    def e_Compare(self, e, fr):
        left = self.eval(e.left, fr)
        result = True
        for i, (op, rn) in enumerate(zip(e.ops, e.comparators)):
            right = self.eval(rn, fr)
            r = self.compare(op, left, right)
            if len(e.ops) == 1:
                return r
            result = And(result, r)
            if i < len(e.ops) - 1:
                # chained comparison short-circuits
                if not self.branch(self.truthy(r)):
                    return False
            left = right
        return result

    def compare(self, op, a, b):
        if isinstance(op, ast.Is):
            return self.identical(a, b)
        if isinstance(op, ast.IsNot):
            return Not(self.identical(a, b))
        if isinstance(op, ast.Eq):
            return self.eq(a, b)
        if isinstance(op, ast.NotEq):
            if isinstance(a, Obj):
                m, _ = a.cls.lookup("__ne__")
                if m is not None:
                    return self.truthy(self.call(BoundMethod(a, m), [b], {}))
            return Not(self.eq(a, b))
        if isinstance(op, ast.In):
            return self.contains(a, b)
        if isinstance(op, ast.NotIn):
            return Not(self.contains(a, b))
        sym = {ast.Lt: "<", ast.LtE: "<=", ast.Gt: ">", ast.GtE: ">="}[type(op)]
        return self.order(sym, a, b)

    def identical(self, a, b):
        if a is None or b is None:
            o = b if a is None else a
            return self.is_none_term(o)
        if isinstance(a, SOpt) and isinstance(b, SOpt):
            if isinstance(a.val, Obj) and isinstance(b.val, Obj):
                return Or(And(a.is_none, b.is_none), And(Not(a.is_none), Not(b.is_none), a.val is b.val))
            raise Unsupported("'is' between optional scalars")
        if isinstance(a, SOpt) or isinstance(b, SOpt):
            s, o = (a, b) if isinstance(a, SOpt) else (b, a)
            if isinstance(s.val, Obj) or isinstance(o, Obj):
                return And(Not(s.is_none), s.val is o)
            raise Unsupported("'is' on optional scalar")
        if isinstance(a, ObjSeqElem) and isinstance(b, ObjSeqElem) and a.family == b.family:
            return a.base == b.base
        if isinstance(a, ObjSeqElem) or isinstance(b, ObjSeqElem):
            return False
        if isinstance(a, Obj) or isinstance(b, Obj):
            return a is b
        if isinstance(a, (ClassVal, ExtType)) and isinstance(b, (ClassVal, ExtType)):
            return a is b or a == b
        if isinstance(a, (EnumMember, SEnum)) or isinstance(b, (EnumMember, SEnum)):
            return self.eq(a, b)
        if isinstance(a, bool) and isinstance(b, bool):
            return a == b
        heap = (list, dict, set, Tok, FuncVal, Builtin, BoundMethod)
        if isinstance(a, heap) and isinstance(b, heap):
            return a is b            # two objects of the interpreted heap: identity is identity
        if (isinstance(a, Tok) and a.name.startswith("object#") and not is_symbolic(b)) or \
                (isinstance(b, Tok) and b.name.startswith("object#") and not is_symbolic(a)):
            return a is b            # a fresh object() is identical to nothing else
        raise Unsupported("'is' on %r / %r" % (type(a).__name__, type(b).__name__))

    def e_Call(self, e, fr):
        # super()
        if isinstance(e.func, ast.Name) and e.func.id == "super" and not e.args:
            selfv = fr.vars.get(fr.func.node.args.args[0].arg)
            return SuperProxy(selfv, fr.func.cls)
        f = self.eval(e.func, fr)
        args = []
        for a in e.args:
            if isinstance(a, ast.Starred):
                args.extend(self.iterate(self.eval(a.value, fr)))
            else:
                args.append(self.eval(a, fr))
        kwargs = {}
        for k in e.keywords:
            if k.arg is None:
                kwargs.update(self.eval(k.value, fr))
            else:
                kwargs[k.arg] = self.eval(k.value, fr)
        self.cur_line = getattr(e, "lineno", self.cur_line)
        return self.call(f, args, kwargs)

    def try_abstract_source(self, node, fr):
        if isinstance(node, ast.Name):
            v, ok = fr.lookup(node.id)
            if ok and isinstance(v, UTerm) and v.sort == "list":
                return v
        return None

    def comp_iter(self, gens, fr, body, first=None):
        def rec(i, f2):
            if i == len(gens):
                body(f2)
                return
            g = gens[i]
            for x in self.iterate(first[0] if (i == 0 and first is not None) else self.eval(g.iter, f2)):
                self.assign(g.target, x, f2)
                ok = True
                for c in g.ifs:
                    t = self.truthy(self.eval(c, f2))
                    if not self.branch(t):
                        ok = False
                        break
                if ok:
                    rec(i + 1, f2)
        f2 = Frame(fr.func, fr)
        f2.func = fr.func
        rec(0, f2)

    def abstract_comp(self, e, fr, src=None):
        """[elt for x in <abstract list> if conds]: an order-preserving map/filter, kept as a term"""
        if len(e.generators) != 1:
            return None
        g = e.generators[0]
        if src is None:
            src = self.eval(g.iter, fr)
        if not (isinstance(src, UTerm) and src.sort == "list"):
            return None, src
        f2 = Frame(fr.func, fr)
        x = UTerm("elem", [src], "str")
        self.assign(g.target, x, f2)
        conds = []
        for c in g.ifs:
            b = self.abstract_bool(c, f2)
            if b is True:
                continue
            conds.append(b)
        elt = self.eval(e.elt, f2)
        if elt is x and not conds:
            return src, src          # identity map without filter
        return UTerm("comp", [src, elt, tuple(conds)], "list"), src

    def abstract_bool(self, c, fr):
        """condition over abstract text, as a term (no truth value is computed)"""
        if isinstance(c, ast.Compare) and len(c.ops) == 1 and isinstance(c.ops[0], (ast.In, ast.NotIn)):
            l, r = self.eval(c.left, fr), self.eval(c.comparators[0], fr)
            if isinstance(r, (list, tuple)) and len(r) == 0:
                return isinstance(c.ops[0], ast.NotIn)
            return UTerm("notin" if isinstance(c.ops[0], ast.NotIn) else "in", [l, r], "bool")
        return UTerm("cond", [ast.dump(c)], "bool")

    def e_ListComp(self, e, fr):
        first = None
        if len(e.generators) == 1:
            # is the source an abstract list (a name bound to one, or an expression yielding one)?
            first = (self.eval(e.generators[0].iter, fr),)
            if isinstance(first[0], UTerm) and first[0].sort == "list":
                return self.abstract_comp(e, fr, first[0])[0]
        out = []
        self.comp_iter(e.generators, fr, lambda f2: out.append(self.eval(e.elt, f2)), first)
        return out

    e_GeneratorExp = e_ListComp

    def e_SetComp(self, e, fr):
        out = []
        self.comp_iter(e.generators, fr, lambda f2: out.append(self.eval(e.elt, f2)))
        if any(is_symbolic(x) or isinstance(x, Obj) for x in out):
            raise Unsupported("set of symbolic values")
        return set(out)

    def e_DictComp(self, e, fr):
        out = {}

        def body(f2):
            k = self.eval(e.key, f2)
            if is_symbolic(k):
                raise Unsupported("symbolic dict key")
            out[k] = self.eval(e.value, f2)
        self.comp_iter(e.generators, fr, body)
        return out

    def e_Yield(self, e, fr):
        f = fr
        while f is not None and f.yielded is None:
            f = f.parent
        if f is None:
            raise Unsupported("yield outside generator")
        v = self.eval(e.value, fr) if e.value is not None else None
        hook = getattr(self, "on_yield", None)
        if hook is not None:
            hook(self, f, v)
        f.yielded.append(v)
        return None

    def e_YieldFrom(self, e, fr):
        f = self.gen_frame(fr)
        if f is None:
            raise Unsupported("yield from outside generator")
        for v in self.iterate(self.eval(e.value, fr)):
            f.yielded.append(v)
        return None

    def e_Starred(self, e, fr):
        raise Unsupported("starred expression")
