"""Edge runs of the pattern constants (C09): which letter runs can a match of a pattern end with
(after a blank inside the match) or begin with (before a blank inside the match) WITHOUT a guard
(\\b, look-around, anchor) that keeps the neighbouring character from being a letter?

Such a run v is where a pattern can reach into a neighbouring word: 'NUM\\s*weeks?' matches
"8 week|end", '(not )?before' matches "k|not before".  The analysis walks the sre parse tree from
the edge inwards and returns a finite OVER-approximation (assertions that are not guards are
ignored) of the set of runs, or raises Unknown.  The runs are turned into adversarial inert context
words by replay/edge_bridge.py and tried against the real parser.
"""
from .regexmodel import sre_c, MAXREPEAT, WS_CHARS

LETTERS = set("abcdefghijklmnopqrstuvwxyzäöüß")
MAX_ITEMS = 20000
MAX_LEN = 40
REP_CAP = 6


class Unknown(Exception):
    pass


def _charset(op, av):
    """(letters or 'BIG', has_ws, has_other) of a one-character atom, lower-cased"""
    if op is sre_c.LITERAL:
        c = chr(av).lower()
        if c in WS_CHARS:
            return set(), True, False
        if c.isalpha():
            return {c}, False, False
        return set(), False, True
    if op in (sre_c.NOT_LITERAL, sre_c.ANY):
        return "BIG", True, True
    if op is sre_c.CATEGORY:
        return _charset(sre_c.IN, [(sre_c.CATEGORY, av)])
    if op is sre_c.IN:
        letters, ws, other = set(), False, False
        for o, a in av:
            if o is sre_c.NEGATE:
                return "BIG", True, True
            if o is sre_c.LITERAL:
                l2, w2, o2 = _charset(sre_c.LITERAL, a)
                letters |= l2
                ws |= w2
                other |= o2
            elif o is sre_c.RANGE:
                if a[1] - a[0] > 200:
                    return "BIG", True, True
                for c in range(a[0], a[1] + 1):
                    l2, w2, o2 = _charset(sre_c.LITERAL, c)
                    letters |= l2
                    ws |= w2
                    other |= o2
            elif o is sre_c.CATEGORY:
                if a is sre_c.CATEGORY_DIGIT:
                    other = True
                elif a is sre_c.CATEGORY_SPACE:
                    ws = True
                else:
                    return "BIG", True, True
            else:
                raise Unknown("class item %s" % o)
        return letters, ws, other
    raise Unknown("atom %s" % op)


def _first_letters(sub):
    """letters with which the content of a look-around can start ('BIG' = all); None if it is not a
    plain alternative of one-character tests"""
    out = set()
    big = False
    if len(sub) != 1:
        return None
    op, av = sub[0]
    alts = [p for p in av[1]] if op is sre_c.BRANCH else [sub]
    for p in alts:
        if len(p) != 1:
            return None
        o, a = p[0]
        if o is sre_c.AT:
            continue
        try:
            l, w, oth = _charset(o, a)
        except Unknown:
            return None
        if l == "BIG":
            big = True
        else:
            out |= l
    return "BIG" if big else out


def _is_guard(op, av, tail):
    """does this zero-width node keep the character just outside the match from being a letter?"""
    if op is sre_c.AT:
        if av is sre_c.AT_BOUNDARY:
            return True
        if tail and av in (sre_c.AT_END, sre_c.AT_END_STRING):
            return True
        if not tail and av in (sre_c.AT_BEGINNING, sre_c.AT_BEGINNING_STRING):
            return True
        return False
    d, p = av
    if (d == 1) != tail:
        return False                       # looks to the other side
    fl = _first_letters(p)
    if fl is None:
        return False
    if op is sre_c.ASSERT_NOT:
        return fl == "BIG" or LETTERS <= fl
    return fl != "BIG" and not fl          # positive look-around that admits no letter


def edge_runs(tree, tail, far_side=True):
    """set of letter runs (lower case) at the tail (tail=True) / head of a match that are separated
    from the rest of the match by a blank and not guarded against a neighbouring letter.
    Look-arounds at the edge that are not guards are examined the same way: the runs their content can
    see beyond a blank (far_side=False: nothing needs to be consumed on the far side of the blank)."""
    done = set()

    def join(c, s):
        return c + s if tail else s + c

    def atom(op, av, items):
        # items: (run, phase); phase 0: collecting the letters of the run, phase 1: a blank has closed the
        # run, waiting for the match to consume something else than blanks on the far side of it
        if op in (sre_c.LITERAL, sre_c.NOT_LITERAL, sre_c.ANY, sre_c.IN, sre_c.CATEGORY):
            letters, ws, other = _charset(op, av)
            out = set()
            for s, ph in items:
                if ph == 1:
                    if letters or other:
                        done.add(s)
                    if ws:
                        out.add((s, 1))
                    continue
                if ws and s:
                    if far_side:
                        out.add((s, 1))
                    else:
                        done.add(s)
                if letters == "BIG":
                    raise Unknown("unbounded character class next to the edge")
                for c in letters:
                    out.add((join(c, s), 0))
            if len(out) > MAX_ITEMS or any(len(s) > MAX_LEN for s, _ in out):
                raise Unknown("too many edge runs")
            return out
        if op is sre_c.SUBPATTERN:
            return seq(av[3], items)
        if op is getattr(sre_c, "ATOMIC_GROUP", None):
            return seq(av, items)
        if op is sre_c.BRANCH:
            out = set()
            for p in av[1]:
                out |= seq(p, items)
            return out
        if op in (sre_c.MAX_REPEAT, sre_c.MIN_REPEAT, getattr(sre_c, "POSSESSIVE_REPEAT", None)):
            lo, hi, p = av
            out = set(items) if lo == 0 else set()
            cur, seen, k = set(items), set(items), 0
            while cur and (hi is MAXREPEAT or k < hi):
                k += 1
                cur = seq(p, cur)
                if k >= lo:
                    out |= cur
                    if cur <= seen:
                        break          # closed under one more iteration (the step distributes over union)
                seen |= cur
                if k >= REP_CAP + (lo if isinstance(lo, int) else 0) and cur and (hi is MAXREPEAT or k < hi):
                    raise Unknown("unbounded repetition of letters next to the edge")
            return out
        if op in (sre_c.AT, sre_c.ASSERT, sre_c.ASSERT_NOT):
            if _is_guard(op, av, tail):
                return {(s, ph) for s, ph in items if s}      # the empty run (we are still at the edge) is guarded
            if op is not sre_c.AT and ("", 0) in items and (av[0] == 1) == tail:
                # a look-around on the outer side of the match that is not a guard: what can it see across a blank?
                done.update(edge_runs(av[1], tail, far_side=False))
            return items
        raise Unknown("regex node %s" % op)

    def seq(sub, items):
        nodes = list(sub)
        for op, av in (reversed(nodes) if tail else nodes):
            if not items:
                break
            items = atom(op, av, items)
        return items

    seq(tree, {("", 0)})
    return done
