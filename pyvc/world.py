"""Loads the *real* source of /repo (ast, re-read on every run) and the real
module constants (dumped from the imported modules under /venv) and offers
them to the executor."""
import ast
import hashlib
import json
import os
import subprocess
import sys

import z3

from .values import (PyRaise, Unsupported, SOpt, FinStr, SStr, OpaqueStr, EnumMember, SEnum, Obj, FuncVal, Tok,
                     ClassVal, Prop, ClassMethod, StaticMethod, BoundMethod, Builtin, ExtType, ModVal, is_z3,
                     is_symbolic)
from .logic import And, Or, Not, If
from . import models
from .regexmodel import PatternModel, parse_defines

REPO = os.environ.get("QUICKADD_REPO", "/repo")
VENV_PY = os.environ.get("QUICKADD_PY", "/venv/bin/python")
VERIF = os.path.dirname(os.path.dirname(os.path.abspath(__file__)))

MODULE_FILES = {
    "ctparse.types": "ctparse/types.py",
    "ctparse.rule": "ctparse/rule.py",
    "ctparse.time.rules": "ctparse/time/rules.py",
    "ctparse.time.postprocess_latent": "ctparse/time/postprocess_latent.py",
    "ctparse.ctparse": "ctparse/ctparse.py",
    "ctparse.partial_parse": "ctparse/partial_parse.py",
    "ctparse.timers": "ctparse/timers.py",
    "ctparse.loader": "ctparse/loader.py",
    "ctparse.nb_scorer": "ctparse/nb_scorer.py",
    "ctparse.nb_estimator": "ctparse/nb_estimator.py",
    "ctparse.count_vectorizer": "ctparse/count_vectorizer.py",
    "ctparse.pipeline": "ctparse/pipeline.py",
    "ctparse.corpus": "ctparse/corpus.py",
    "ctparse.scorer": "ctparse/scorer.py",
}
SHORT = {"types": "ctparse.types", "rule": "ctparse.rule", "rules": "ctparse.time.rules",
         "postprocess_latent": "ctparse.time.postprocess_latent", "ctparse": "ctparse.ctparse",
         "partial_parse": "ctparse.partial_parse", "timers": "ctparse.timers", "loader": "ctparse.loader",
         "nb_scorer": "ctparse.nb_scorer", "nb_estimator": "ctparse.nb_estimator",
         "count_vectorizer": "ctparse.count_vectorizer", "pipeline": "ctparse.pipeline",
         "corpus": "ctparse.corpus", "scorer": "ctparse.scorer"}

EXC_PARENTS = {
    "Exception": "BaseException", "ValueError": "Exception", "TypeError": "Exception", "KeyError": "LookupError",
    "IndexError": "LookupError", "LookupError": "Exception", "AttributeError": "Exception",
    "ZeroDivisionError": "ArithmeticError", "OverflowError": "ArithmeticError", "ArithmeticError": "Exception",
    "AssertionError": "Exception", "StopIteration": "Exception", "UnboundLocalError": "NameError",
    "NameError": "Exception", "CTParseTimeoutError": "Exception", "RuntimeError": "Exception",
    "UnicodeError": "ValueError",
}


class ModuleInfo:
    def __init__(self, name, path, src, tree):
        self.name = name
        self.path = path
        self.src = src
        self.tree = tree
        self.globals = {}
        self.lines = src.splitlines()
        self.imported_names = set()
        for n in ast.walk(tree):
            if isinstance(n, (ast.Import, ast.ImportFrom)):
                for a in n.names:
                    self.imported_names.add((a.asname or a.name).split(".")[0])


def _strptime(it, a, k):
    """datetime.strptime: executed when both arguments are literal strings (real library call, the result is a
    concrete datetime model), otherwise an opaque token that records the text and the format"""
    from .values import Tok, PyRaise
    if len(a) == 2 and isinstance(a[0], str) and isinstance(a[1], str):
        import datetime as _dt
        from . import models
        try:
            d = _dt.datetime.strptime(a[0], a[1])
        except ValueError as e:
            raise PyRaise("ValueError", str(e))
        return models.DT(d.year, d.month, d.day, d.hour, d.minute, d.second, d.microsecond)
    return Tok("strptime(%s, %s)" % (getattr(a[0], "name", a[0]), getattr(a[1], "name", a[1]) if len(a) > 1 else "?"))


def dump_constants(repo=REPO):
    env = dict(os.environ)
    env["PYTHONPATH"] = repo
    env["PYTHONDONTWRITEBYTECODE"] = "1"
    p = subprocess.run([VENV_PY, "-W", "ignore", os.path.join(VERIF, "replay", "dump_consts.py")],
                       cwd=repo, env=env, capture_output=True, text=True, timeout=300)
    if p.returncode != 0:
        raise RuntimeError("constant dump failed (the package does not import?):\n" + p.stderr[-3000:])
    d = json.loads(p.stdout)
    for mn, f in d["file"].items():
        if not os.path.abspath(f).startswith(os.path.abspath(repo) + os.sep):
            raise RuntimeError("constants were not imported from %s but from %s" % (repo, f))
    return d


class World:
    def __init__(self, repo=REPO, consts=None):
        self.repo = repo
        self.consts = consts if consts is not None else dump_constants(repo)
        self.modules = {}
        self.builtins = {}
        self.global_container_ids = set()
        self._gen_cache = {}
        self._locals_cache = {}
        self.enum_classes = {}
        self.classes = {}
        self._mk_builtins()
        for name, rel in MODULE_FILES.items():
            path = os.path.join(repo, rel)
            src = open(path, encoding="utf-8").read()
            self.modules[name] = ModuleInfo(name, path, src, ast.parse(src, filename=path))
        # two passes: definitions first, then imports/constants
        for m in self.modules.values():
            self._load_defs(m)
        for m in self.modules.values():
            self._load_imports_and_consts(m)
        _WORLD_SINGLETON[0] = self
        self._load_module_objects()
        self.defines = parse_defines(self._raw_const("ctparse.rule", "_defines"))
        self.patterns = {}
        for k, v in self.consts["regex_str"].items():
            self.patterns[int(k)] = PatternModel(int(k), v, self.defines)
        self.str_regex = dict(self.consts["str_regex"])
        _WORLD_SINGLETON[0] = self

    # ------------------------------------------------------------ loading
    def _raw_const(self, mod, name):
        return self.consts["modules"][mod][name]

    def decode(self, v):
        if isinstance(v, dict):
            if "__enum__" in v:
                cn, name, val = v["__enum__"]
                cls = self.enum_classes[cn]
                return cls.members[name]
            if "__tuple__" in v:
                return tuple(self.decode(x) for x in v["__tuple__"])
            if "__dict__" in v:
                return {self._hashable(self.decode(k)): self.decode(x) for k, x in v["__dict__"]}
            raise ValueError(v)
        if isinstance(v, list):
            return [self.decode(x) for x in v]
        return v

    @staticmethod
    def _hashable(k):
        return k

    def _load_defs(self, m):
        for s in m.tree.body:
            if isinstance(s, ast.FunctionDef):
                m.globals[s.name] = FuncVal(s, m, None, qualname="%s.%s" % (self.short(m.name), s.name))
            elif isinstance(s, ast.ClassDef):
                m.globals[s.name] = self._mk_class(s, m)

    def short(self, modname):
        for k, v in SHORT.items():
            if v == modname:
                return k
        return modname

    def _mk_class(self, node, m):
        cls = ClassVal(node.name, node, m, [])
        cls._base_nodes = node.bases
        for s in node.body:
            if isinstance(s, ast.FunctionDef):
                f = FuncVal(s, m, None, qualname="%s.%s.%s" % (self.short(m.name), node.name, s.name), cls=cls)
                decs = [d.id if isinstance(d, ast.Name) else getattr(d, "attr", None) for d in s.decorator_list]
                if "property" in decs:
                    cls.members[s.name] = Prop(f)
                elif "classmethod" in decs:
                    cls.members[s.name] = ClassMethod(f)
                elif "staticmethod" in decs:
                    cls.members[s.name] = StaticMethod(f)
                elif "abstractmethod" in decs or not decs:
                    cls.members[s.name] = f
                else:
                    cls.members[s.name] = f
            elif isinstance(s, ast.Assign) and len(s.targets) == 1 and isinstance(s.targets[0], ast.Name):
                if isinstance(s.value, ast.Constant):
                    cls.members[s.targets[0].id] = s.value.value
        self.classes[node.name] = cls
        return cls

    def _load_imports_and_consts(self, m):
        # class bases
        for s in m.tree.body:
            if isinstance(s, ast.ClassDef):
                cls = m.globals[s.name]
                for b in cls._base_nodes:
                    if isinstance(b, ast.Name) and isinstance(self._resolve_name(m, b.id), ClassVal):
                        cls.bases.append(self._resolve_name(m, b.id))
                    elif isinstance(b, ast.Attribute) and b.attr == "Enum":
                        cls.is_enum = True
                    elif isinstance(b, ast.Name) and b.id in ("Exception",):
                        cls.exc_base = b.id
                if cls.is_enum:
                    for k, v in list(cls.members.items()):
                        if not isinstance(v, (FuncVal, Prop, ClassMethod, StaticMethod)):
                            cls.members[k] = EnumMember(cls, k, v)
                    self.enum_classes[cls.name] = cls
        for s in m.tree.body:
            if isinstance(s, ast.ImportFrom):
                src = self._abs_module(m, s)
                for a in s.names:
                    nm = a.asname or a.name
                    if a.name == "*":
                        continue
                    v = self._import(src, a.name)
                    if v is not None:
                        m.globals[nm] = v
                    elif src in self.modules:
                        # a name of a repo module the loader has no value for (compiled regexes, the
                        # registry of callables, ...): an opaque token, usable only by being passed on
                        m.globals[nm] = Tok("%s.%s" % (self.short(src), a.name))
            elif isinstance(s, ast.Import):
                for a in s.names:
                    nm = a.asname or a.name
                    m.globals[nm] = self._ext_module(a.name)
        consts = self.consts["modules"].get(m.name, {})
        for s in m.tree.body:
            targets = []
            if isinstance(s, ast.Assign):
                targets = [t.id for t in s.targets if isinstance(t, ast.Name)]
            elif isinstance(s, ast.AnnAssign) and isinstance(s.target, ast.Name):
                targets = [s.target.id]
            for t in targets:
                if t in consts and t not in ("T",):
                    try:
                        v = self.decode(consts[t])
                    except (KeyError, ValueError):
                        continue
                    m.globals[t] = v
                    if isinstance(v, (list, dict)):
                        self.global_container_ids.add(id(v))
        for s in m.tree.body:
            if (isinstance(s, ast.Assign) and len(s.targets) == 1 and isinstance(s.targets[0], ast.Name)
                    and isinstance(s.value, ast.Call) and isinstance(s.value.func, ast.Attribute)
                    and s.value.func.attr == "compile" and isinstance(s.value.func.value, ast.Name)
                    and s.value.func.value.id in ("regex", "re") and s.value.args
                    and isinstance(s.value.args[0], ast.Constant) and isinstance(s.value.args[0].value, str)):
                from .tstr import RegexVal
                try:
                    m.globals[s.targets[0].id] = RegexVal(s.value.args[0].value, 0, s.value.func.value.id)
                except Exception:
                    pass     # a pattern CPython's sre cannot parse (\\p{..}): left undefined -> unsupported on use
        for s in m.tree.body:
            # module-level constants  NAME = relativedelta(k=<int>, ...) / timedelta(...)  (hoisted by refactorings)
            if (isinstance(s, ast.Assign) and len(s.targets) == 1 and isinstance(s.targets[0], ast.Name) and s.targets[0].id not in m.globals
                    and isinstance(s.value, ast.Call) and isinstance(s.value.func, ast.Name) and s.value.func.id in ("relativedelta", "timedelta")
                    and not s.value.args and all(isinstance(k.value, ast.Constant) and isinstance(k.value.value, int) and k.arg for k in s.value.keywords)
                    and s.value.func.id in m.imported_names):
                kw = {k.arg: k.value.value for k in s.value.keywords}
                try:
                    m.globals[s.targets[0].id] = (models.make_relativedelta if s.value.func.id == "relativedelta" else models.make_timedelta)(None, [], kw)
                except Exception:
                    pass
        for s in m.tree.body:
            if isinstance(s, ast.Assign) and len(s.targets) == 1 and isinstance(s.targets[0], ast.Name):
                nm = s.targets[0].id
                if nm not in m.globals and isinstance(s.value, ast.Call):
                    # a module-level object the loader cannot evaluate (default scorer, logger, ...)
                    m.globals[nm] = Tok("%s.%s" % (self.short(m.name), nm))
                    m.globals[nm].module_global = True
        if m.name == "ctparse.time.rules":
            # `from ..types import pod_hours` etc. are handled by ImportFrom; rule-decorated functions
            # are bound to the *wrapper* at run time (see World.rule_wrapper)
            pass

    def _resolve_name(self, m, name):
        if name in m.globals:
            return m.globals[name]
        for s in m.tree.body:
            if isinstance(s, ast.ImportFrom):
                for a in s.names:
                    if (a.asname or a.name) == name:
                        return self._import(self._abs_module(m, s), a.name)
        return None

    def _abs_module(self, m, s):
        if s.level == 0:
            return s.module
        parts = m.name.split(".")
        base = parts[:len(parts) - s.level]
        if s.module:
            base.append(s.module)
        return ".".join(base)

    def _import(self, modname, name):
        if modname in self.modules:
            mm = self.modules[modname]
            if name in mm.globals:
                return mm.globals[name]
            consts = self.consts["modules"].get(modname, {})
            if name in consts:
                try:
                    v = self.decode(consts[name])
                except (KeyError, ValueError):
                    return None
                # share one object per module constant
                mm.globals[name] = v
                if isinstance(v, (list, dict)):
                    self.global_container_ids.add(id(v))
                return v
            # re-exported import
            r = self._resolve_name(mm, name)
            return r
        ext = {
            ("datetime", "datetime"): DATETIME_CLASS,
            ("datetime", "timedelta"): Builtin("timedelta", models.make_timedelta),
            ("dateutil.relativedelta", "relativedelta"): Builtin("relativedelta", models.make_relativedelta),
            ("dateutil.rrule", "rrule"): Builtin("rrule", models.make_rrule),
            ("dateutil.rrule", "MONTHLY"): 1,
            ("typing", "cast"): Builtin("cast", lambda it, a, k: a[1]),
            ("time", "perf_counter"): Builtin("perf_counter", _perf_counter),
            ("functools", "wraps"): Builtin("wraps", lambda it, a, k: Builtin("wraps.deco", lambda it2, a2, k2: a2[0])),
            ("copy", "copy"): Builtin("copy", _copy),
            ("math", "log"): Builtin("log", _log),
            ("math", "exp"): Builtin("exp", _exp),
            ("tqdm", "tqdm"): Builtin("tqdm", lambda it, a, k: a[0]),
            ("itertools", "chain"): ModVal("chain", {"from_iterable": Builtin(
                "chain.from_iterable", lambda it, a, k: [y for x in it.iterate(a[0]) for y in it.iterate(x)])}),
        }
        if (modname, name) in ext:
            return ext[(modname, name)]
        if modname == "typing":
            return ExtType("typing." + name)
        return None

    def _ext_module(self, name):
        if name in ("bz2", "pickle", "os", "logging", "json"):
            m = ModVal(name)
            m.opaque = True
            if name == "os":
                p = ModVal("os.path")
                p.opaque = True
                m.attrs["path"] = p
            return m
        if name == "math":
            return ModVal("math", {"log": Builtin("log", _log), "exp": Builtin("exp", _exp)})
        m = ModVal(name)
        if name in ("re", "regex"):
            m.opaque = True      # calls become uninterpreted terms (A-regex)
        return m

    def _load_module_objects(self):
        """module-level names bound to objects of repo classes (e.g. a shared Time constant):
        evaluated from the real assignment; such objects pre-exist every call (never 'fresh')"""
        from .interp import Interp, Frame
        for m in self.modules.values():
            for s in m.tree.body:
                if not (isinstance(s, ast.Assign) and len(s.targets) == 1 and isinstance(s.targets[0], ast.Name)):
                    continue
                name = s.targets[0].id
                if (name in m.globals and not isinstance(m.globals[name], Tok)) or not isinstance(s.value, ast.Call):
                    continue
                fn = s.value.func
                if not (isinstance(fn, ast.Name) and isinstance(m.globals.get(fn.id), ClassVal)):
                    continue
                try:
                    it = Interp(self)
                    holder = FuncVal(ast.parse("def __module__(): pass").body[0], m, None, qualname=self.short(m.name))
                    v = it.eval(s.value, Frame(holder))
                except Exception:
                    continue
                if isinstance(v, Obj):
                    v.fresh = False
                    v.label = "module global %s.%s" % (self.short(m.name), name)
                    v.is_module_global = True
                    m.globals[name] = v

    # ------------------------------------------------------------ lookup helpers
    def pod_table(self):
        return self.modules["ctparse.types"].globals["pod_hours"]

    def func(self, qualname):
        """'rules.ruleLatentDOM', 'types.Time.start', 'rule.rule.fwrapper.wrapper'"""
        try:
            return self._func(qualname)
        except KeyError:
            if qualname in ("rule.rule.fwrapper.wrapper", "rule.rule.fwrapper"):
                # the two closures of the @rule decorator, found by their role when they were renamed: the decorator is the
                # nested function that rule() returns, the wrapper the function nested in it that takes *args
                r = self._func("rule.rule")
                ret = [n.value.id for n in r.node.body if isinstance(n, ast.Return) and isinstance(n.value, ast.Name)]
                decs = [n for n in r.node.body if isinstance(n, ast.FunctionDef) and n.name in ret]
                if len(decs) == 1:
                    dec = FuncVal(decs[0], r.module, None, qualname="rule.rule." + decs[0].name)
                    if qualname.endswith("fwrapper"):
                        return dec
                    ws = [n for n in decs[0].body if isinstance(n, ast.FunctionDef) and n.args.vararg is not None]
                    if len(ws) == 1:
                        return FuncVal(ws[0], r.module, None, qualname=dec.qualname + "." + ws[0].name)
            raise

    def _func(self, qualname):
        parts = qualname.split(".")
        m = self.modules[SHORT[parts[0]]]
        cur = m.globals.get(parts[1])
        if cur is None:
            raise KeyError(qualname)
        for p in parts[2:]:
            if isinstance(cur, ClassVal):
                v = cur.members.get(p)
                if isinstance(v, (Prop,)):
                    v = v.fget
                elif isinstance(v, (ClassMethod, StaticMethod)):
                    v = v.f
                cur = v
            elif isinstance(cur, FuncVal):
                found = None
                for s in ast.walk(cur.node):
                    if isinstance(s, ast.FunctionDef) and s.name == p and s is not cur.node:
                        found = s
                        break
                if found is None:
                    raise KeyError(qualname)
                cur = FuncVal(found, m, None, qualname=cur.qualname + "." + p)
            if cur is None:
                raise KeyError(qualname)
        return cur

    def reach(self, names):
        """names of repo functions executed (transitively, by name) when the given functions run"""
        if not hasattr(self, "_defs"):
            self._defs = {}
            for m in self.modules.values():
                for n in ast.walk(m.tree):
                    if isinstance(n, ast.FunctionDef):
                        self._defs.setdefault(n.name, []).append(n)
        seen, todo = set(), list(names)
        while todo:
            x = todo.pop()
            if x in seen or x not in self._defs:
                continue
            seen.add(x)
            for node in self._defs[x]:
                for c in ast.walk(node):
                    if isinstance(c, ast.Call):
                        f = c.func
                        nm = f.id if isinstance(f, ast.Name) else (f.attr if isinstance(f, ast.Attribute) else None)
                        if nm and nm not in seen:
                            todo.append(nm)
                    elif isinstance(c, ast.Attribute) and c.attr in self._defs and c.attr not in seen:
                        todo.append(c.attr)
        return sorted(seen)

    def dropped_statements(self, names):
        """logger.* statements (dropped by the extraction, A-log) inside the given functions"""
        n = 0
        for x in names:
            for node in getattr(self, "_defs", {}).get(x, []):
                for c in ast.walk(node):
                    if isinstance(c, ast.Expr) and self.is_logger_call(c.value):
                        n += 1
        return n

    def source_of(self, f):
        seg = ast.get_source_segment(f.module.src, f.node)
        return seg or ""

    def sha(self, f):
        return hashlib.sha256(self.source_of(f).encode("utf-8")).hexdigest()[:16]

    def is_generator(self, node):
        k = id(node)
        if k not in self._gen_cache:
            r = False
            stack = list(getattr(node, "body", [])) if not isinstance(node, ast.Lambda) else []
            while stack:
                n = stack.pop()
                if isinstance(n, (ast.Yield, ast.YieldFrom)):
                    r = True
                    break
                if isinstance(n, (ast.FunctionDef, ast.Lambda, ast.ClassDef)):
                    continue
                stack.extend(ast.iter_child_nodes(n))
            self._gen_cache[k] = r
        return self._gen_cache[k]

    @staticmethod
    def is_logger_call(e):
        return (isinstance(e, ast.Call) and isinstance(e.func, ast.Attribute)
                and isinstance(e.func.value, ast.Name) and e.func.value.id == "logger")

    def exc_isinstance(self, cls, name):
        c = cls
        seen = 0
        while c is not None and seen < 20:
            if c == name:
                return True
            c = EXC_PARENTS.get(c)
            seen += 1
        return name in ("BaseException",)

    def rule_defs(self):
        """every FunctionDef of rules.py decorated with @rule(...), in source order"""
        m = self.modules["ctparse.time.rules"]
        out = []
        for s in m.tree.body:
            if isinstance(s, ast.FunctionDef):
                for d in s.decorator_list:
                    if isinstance(d, ast.Call) and isinstance(d.func, ast.Name) and d.func.id == "rule":
                        out.append((s, d))
        return out

    # ------------------------------------------------------------ builtins
    def _mk_builtins(self):
        B = self.builtins

        TYPES = ("int", "str", "float", "bool", "tuple", "list", "dict", "set")

        def reg(name):
            def deco(fn):
                B[name] = ExtType(name, fn) if name in TYPES else Builtin(name, fn)
                return fn
            return deco

        @reg("int")
        def _int(it, a, k):
            from .interp import GroupVal
            if not a:
                return 0
            v = a[0]
            if isinstance(v, SOpt):
                if it.branch(v.is_none):
                    raise PyRaise("TypeError", "int() argument must be a string or a number, not 'NoneType'")
                v = v.val
            if v is None:
                raise PyRaise("TypeError", "int() argument must be a string or a number, not 'NoneType'")
            if isinstance(v, bool):
                return int(v)
            if isinstance(v, int):
                return v
            if isinstance(v, float):
                return int(v)
            if isinstance(v, str):
                try:
                    return int(v)
                except ValueError:
                    raise PyRaise("ValueError", "invalid literal for int()")
            if is_z3(v):
                if z3.is_int(v):
                    return v
                if z3.is_bool(v):
                    return z3.If(v, 1, 0)
                raise Unsupported("int(real)")
            if isinstance(v, GroupVal):
                g = v.mv.pm.groups[v.name]
                if not g.all_digit:
                    raise PyRaise("ValueError", "invalid literal for int(): group %r is not all digits" % v.name)
                if g.words is None and v.mv.limits.get(v.name) is None:
                    # unbounded digit string: CPython refuses > 4300 digits
                    raise PyRaise("ValueError", "Exceeds the limit (4300 digits) for integer string conversion")
                return v.mv.ints[v.name]
            from .tstr import TStr, to_int
            if isinstance(v, TStr):
                return to_int(it, v)
            if isinstance(v, FinStr):
                if all(o.strip().lstrip("+-").isdigit() for o in v.options):
                    vals = [int(o) for o in v.options]
                    t = vals[-1]
                    for i in range(len(vals) - 2, -1, -1):
                        t = z3.If(v.idx == i, vals[i], t)
                    return it.simp(t)
                raise PyRaise("ValueError", "invalid literal for int()")
            raise Unsupported("int(%s)" % type(v).__name__)

        @reg("len")
        def _len(it, a, k):
            from .interp import GroupVal
            v = a[0]
            if isinstance(v, SOpt):
                v = it.unwrap(v, "TypeError", "object of type 'NoneType' has no len()")
            if isinstance(v, (str, tuple, list, dict, set, frozenset)):
                return len(v)
            from .values import SymSeq, PairSeq
            from .values import ObjSeq
            if isinstance(v, (SymSeq, PairSeq, ObjSeq)):
                return v.n
            if isinstance(v, Obj):
                m, _ = v.cls.lookup("__len__")
                if m is None:
                    raise PyRaise("TypeError", "object of type '%s' has no len()" % v.cls.name)
                return it.call(BoundMethod(v, m), [], {})
            if isinstance(v, GroupVal):
                return v.mv.length(it, v.name)
            if isinstance(v, SStr):
                return z3.Length(v.t)
            if isinstance(v, FinStr):
                t = len(v.options[-1])
                for i in range(len(v.options) - 2, -1, -1):
                    t = z3.If(v.idx == i, len(v.options[i]), t)
                return it.simp(t)
            if v is None:
                raise PyRaise("TypeError", "object of type 'NoneType' has no len()")
            if hasattr(v, "sym_len"):
                return v.sym_len
            from .values import UTerm
            if isinstance(v, UTerm) and v.sort in ("str", "any") and v.fn in ("str.rstrip", "str.strip", "str.lstrip") and not v.args[1:]:
                # length of a stripped text: between 0 and the length of the text; at least 1 when the
                # text is non-empty and (for rstrip) does not start with white space
                import hashlib
                inner = v.args[0]
                n_in = _len(it, [inner], {})
                n = z3.Int("len!" + hashlib.sha256(repr(v.key()).encode()).hexdigest()[:10])
                it.assume(z3.And(n >= 0, n <= n_in))
                if v.fn == "str.rstrip" and getattr(inner, "starts_nonblank", False):
                    it.assume(z3.Implies(n_in >= 1, n >= 1))
                return n
            raise Unsupported("len(%s)" % type(v).__name__)

        @reg("all")
        def _all(it, a, k):
            return And(*[it.truthy(x) for x in it.iterate(a[0])])

        @reg("any")
        def _any(it, a, k):
            return Or(*[it.truthy(x) for x in it.iterate(a[0])])

        @reg("enumerate")
        def _enum(it, a, k):
            start = a[1] if len(a) > 1 else k.get("start", 0)
            return [(i + start, x) for i, x in enumerate(it.iterate(a[0]))]

        @reg("zip")
        def _zip(it, a, k):
            return list(zip(*[it.iterate(x) for x in a]))

        @reg("range")
        def _range(it, a, k):
            if any(is_z3(x) for x in a):
                raise Unsupported("range with symbolic bound")
            return range(*a)

        @reg("reversed")
        def _rev(it, a, k):
            return list(reversed(it.iterate(a[0])))

        @reg("tuple")
        def _tuple(it, a, k):
            return tuple(it.iterate(a[0])) if a else ()

        @reg("list")
        def _list(it, a, k):
            from .values import ObjSeq
            if a and isinstance(a[0], ObjSeq):
                return a[0].copy()
            return list(it.iterate(a[0])) if a else []

        @reg("dict")
        def _dict(it, a, k):
            d = dict(a[0]) if a else {}
            d.update(k)
            return d

        @reg("set")
        def _set(it, a, k):
            xs = it.iterate(a[0]) if a else []
            if any(is_symbolic(x) or isinstance(x, Obj) for x in xs):
                raise Unsupported("set of symbolic values")
            return set(xs)

        @reg("isinstance")
        def _isinst(it, a, k):
            return it.isinstance_(a[0], a[1])

        @reg("type")
        def _type(it, a, k):
            return it.typeof(a[0])

        @reg("getattr")
        def _getattr(it, a, k):
            if not isinstance(a[1], str):
                raise Unsupported("getattr with non-constant name")
            if len(a) > 2:
                return it.getattr_(a[0], a[1], a[2], True)
            return it.getattr_(a[0], a[1])

        @reg("hasattr")
        def _hasattr(it, a, k):
            sentinel = object()
            return it.getattr_(a[0], a[1], sentinel, True) is not sentinel

        @reg("str")
        def _str(it, a, k):
            return it.to_str(a[0]) if a else ""

        @reg("repr")
        def _repr(it, a, k):
            v = a[0]
            if isinstance(v, SOpt):
                if it.branch(v.is_none):
                    return "None"
                v = v.val
            if isinstance(v, str):
                return repr(v)
            if isinstance(v, (FinStr, SStr, OpaqueStr)):
                return OpaqueStr("repr")
            if isinstance(v, Obj):
                m, _ = v.cls.lookup("__repr__")
                if m is not None:
                    return it.call(BoundMethod(v, m), [], {})
                return OpaqueStr("repr")
            return it.to_str(v)

        @reg("bool")
        def _bool(it, a, k):
            return it.truthy(a[0]) if a else False

        @reg("round")
        def _round(it, a, k):
            v = it.unwrap(a[0], "TypeError", "type NoneType doesn't define __round__ method")
            nd = a[1] if len(a) > 1 else k.get("ndigits")
            if isinstance(v, (int, float)) and (nd is None or isinstance(nd, int)):
                return round(v, nd) if nd is not None else round(v)
            if is_z3(v) and z3.is_int(v) and (nd is None or (isinstance(nd, int) and nd >= 0)):
                return v
            if is_z3(v) and z3.is_real(v) and (nd is None or isinstance(nd, int)):
                # a nearest multiple of 10**-nd (ties not modelled): |r - v| <= half a unit in the last place kept
                half = z3.RealVal("0.5") if nd is None else z3.Q(5, 10 ** (nd + 1)) if nd >= 0 else z3.RealVal(5 * 10 ** (-nd - 1))
                if nd is None:
                    r = it.fresh_int("round")
                    it.assume(z3.And(z3.ToReal(r) - v <= half, v - z3.ToReal(r) <= half))
                    return r
                r = it.fresh_real("round")
                it.assume(z3.And(r - v <= half, v - r <= half))
                return r
            raise Unsupported("round of %s" % type(v).__name__)

        @reg("abs")
        def _abs(it, a, k):
            v = it.unwrap(a[0])
            return If(v < 0, -v, v)

        def _extreme(it, a, k, op):
            key = k.get("key")
            if set(k) - {"key", "default"}:
                raise Unsupported("min/max keyword")
            xs = it.iterate(a[0]) if len(a) == 1 else list(a)
            if not xs:
                if "default" in k:
                    return k["default"]
                raise PyRaise("ValueError", "arg is an empty sequence")
            scalar = lambda x: isinstance(x, (int, float)) or (is_z3(x) and (z3.is_int(x) or z3.is_real(x)))
            if key is None and all(scalar(it.unwrap(x)) for x in xs):
                xs = [it.unwrap(x) for x in xs]
                r = xs[0]
                for x in xs[1:]:
                    r = If(x < r, x, r) if op == "<" else If(x > r, x, r)
                return it.simp(r)
            best, bk = xs[0], (it.call(key, [xs[0]], {}) if key is not None else xs[0])
            for x in xs[1:]:
                kx = it.call(key, [x], {}) if key is not None else x
                if it.branch(it.truthy(it.order(op, kx, bk))):
                    best, bk = x, kx
            return best

        @reg("min")
        def _min(it, a, k):
            return _extreme(it, a, k, "<")

        @reg("max")
        def _max(it, a, k):
            return _extreme(it, a, k, ">")

        @reg("sum")
        def _sum(it, a, k):
            r = a[1] if len(a) > 1 else 0
            for x in it.iterate(a[0]):
                r = it.binop("Add", r, x)
            return r

        @reg("float")
        def _float(it, a, k):
            v = it.unwrap(a[0])
            if isinstance(v, (int, float)):
                return float(v)
            return it.toreal(v)

        @reg("hash")
        def _hash(it, a, k):
            return it.hash_(a[0])

        @reg("sorted")
        def _sorted(it, a, k):
            from .values import ObjSeq
            if isinstance(a[0], ObjSeq) and not (set(k) - {"key", "reverse"}):
                c = a[0].copy()                       # sorted(xs, key=...) = a sorted copy
                it.objseq_method(c, "sort", [], dict(k))
                return c
            xs = it.iterate(a[0])
            if any(is_symbolic(x) or isinstance(x, Obj) for x in xs) or k:
                if set(k) - {"key", "reverse"}:
                    raise Unsupported("sorted() keyword")
                c = list(xs)
                it.list_sort(c, k.get("key"), k.get("reverse", False))
                return c
            return sorted(xs)

        @reg("print")
        def _print(it, a, k):
            return None


        @reg("next")
        def _next(it, a, k):
            xs = a[0]
            if isinstance(xs, list):          # a generator, modelled as the list of its values
                if xs:
                    return xs.pop(0)
                if len(a) > 1:
                    return a[1]
                raise PyRaise("StopIteration", "")
            raise Unsupported("next()")

        for n in ("ValueError", "TypeError", "KeyError", "IndexError", "Exception", "StopIteration",
                  "AttributeError", "ZeroDivisionError", "OverflowError", "AssertionError"):
            B[n] = ExtType(n)
        B["True"] = True
        B["False"] = False
        B["None"] = None
        def _object(it, a, k):
            from .values import Tok
            it.nfresh += 1
            return Tok("object#%d" % it.nfresh)       # a fresh object: only its identity matters (sentinels)
        B["object"] = ExtType("object", _object)
        B["property"] = ExtType("property")

    def node_locals(self, node):
        k = id(node)
        if k not in self._locals_cache:
            names = set()
            for n in ast.walk(node):
                if isinstance(n, ast.Name) and isinstance(n.ctx, ast.Store):
                    names.add(n.id)
                elif isinstance(n, ast.arg):
                    names.add(n.arg)
            self._locals_cache[k] = names
        return self._locals_cache[k]


def _perf_counter(it, a, k):
    """time.perf_counter(): a monotone clock; every read is recorded in the ghost list"""
    reads = it.ghost.setdefault("perf_reads", [])
    c = z3.Real("clock%d" % len(reads))
    if reads:
        it.assume(c >= reads[-1])
    reads.append(c)
    return c


def _now(it, a, k):
    """datetime.now(): a fresh, unconstrained wall-clock reading; the ghost list records in which
    phase (import: default-argument evaluation / call) it was taken"""
    from .models import DT
    n = len(it.ghost.setdefault("clock_reads", []))
    dt = DT(*[z3.Int("now%d.%s" % (n, f)) for f in DT.FIELDS])
    dt.phase = getattr(it, "phase", "call")
    dt.is_now = True
    it.ghost["clock_reads"].append(dt)
    return dt


DATETIME_CLASS = Builtin("datetime", models.make_datetime)
def _utcnow(it, a, k):
    """datetime.utcnow(): a clock reading too, but of another clock than the local wall clock the library documents"""
    dt = _now(it, a, k)
    dt.is_now = False
    dt.is_utcnow = True
    return dt


def _now_tz(it, a, k):
    if a or k:
        raise Unsupported("datetime.now(tz)")
    return _now(it, a, k)


DATETIME_CLASS.attrs = {"now": Builtin("datetime.now", _now_tz), "today": Builtin("datetime.today", _now_tz),
                        "utcnow": Builtin("datetime.utcnow", _utcnow),
                        "strptime": Builtin("datetime.strptime", _strptime)}


def _copy(it, a, k):
    v = a[0]
    if isinstance(v, Obj):
        o = Obj(v.cls, fresh=True)
        o.attrs = dict(v.attrs)
        return o
    if isinstance(v, (list, dict, set)):
        return v.copy()
    return v


def _log(it, a, k):
    v = it.unwrap(a[0])
    if isinstance(v, (int, float)) and not isinstance(v, bool):
        if v <= 0:
            raise PyRaise("ValueError", "math domain error")
    else:
        if it.branch(Not(v > 0)):
            raise PyRaise("ValueError", "math domain error")
    return it.world.logf(it.toreal(v))


def _exp(it, a, k):
    v = it.unwrap(a[0])
    e = it.world.expf(it.toreal(v))
    it.assume(e > 0)          # ground instance of the real-analysis axiom exp(x) > 0 (A-real)
    return e


# uninterpreted log / exp over the reals (A-real); axioms are added by the contracts that need them
World.logf = staticmethod(z3.Function("log", z3.RealSort(), z3.RealSort()))
World.expf = staticmethod(z3.Function("exp", z3.RealSort(), z3.RealSort()))


def _node_locals(self):
    return _WORLD_SINGLETON[0].node_locals(self.node)


_WORLD_SINGLETON = [None]
FuncVal.node_locals = _node_locals
