"""Turns unit results into a verdict, replay files, the evidence file and the exit code."""
import json
import os
import time

VERIF = os.path.dirname(os.path.dirname(os.path.abspath(__file__)))

ASSUMPTIONS = {
    "A-py": "Python semantics of the executor's subset (DESIGN 2.3): validated per run by the CPython cross-check, not proved",
    "A-regex": "the regex/re C engines implement the pattern language: finditer reports matches of L(p) with group values consistent with the match-shape model; unverified C code",
    "A-dateutil": "trusted contracts of datetime / dateutil.relativedelta / rrule (pyvc/models.py), validated against the installed library on a grid each run, not proved",
    "A-rank": "text-level reading: the candidate built by the contracted rule chain is the top-scoring one (floating-point ranking over all candidates is not expressible as a function contract)",
    "A-real": "floats treated as reals; IEEE rounding, overflow and NaN ignored",
    "A-lib": "list.sort/sorted return a sorted stable permutation; pickle round trip is structural; str.split/join/strip per documentation",
    "A-log": "the call of a logger.* statement is dropped; its argument expressions are evaluated without forking, so an exception they raise unconditionally on a path is seen (exceptions inside __repr__/__str__ of logged values and in forking sub-expressions are not)",
    "A-analysis": "C17, duplication of a positive example: for a document with several distinct n-grams the step sum_i c_i*log(1+c_i/a_i) >= C*log(1+C/A) uses the convexity of log(1+1/x) (Jensen) -- a paper argument in DESIGN A.9, not machine-checked; the one-feature case and the prior part are discharged lemmas",
    "A-noalias": "distinct arguments of a rule are distinct objects: an invariant of productions whose inductive step is discharged (wrapper: result-is-none-of-the-arguments; apply_rule: items-stay-pairwise-distinct-objects) and whose base case (initial sequences have strictly increasing match indices) rests on the bounded _regex_stack units; assumed when a rule body is verified on its own",
}


def load_json(path, default):
    try:
        return json.load(open(path))
    except Exception:
        return default


def finish(prop, a, results, units, world, t0, seed, run_harness, extra=None):
    outdir = os.path.join(os.environ.get("VERIF_OUT") or os.path.join(VERIF, "out"), prop)
    baseline = load_json(os.path.join(VERIF, "baseline_obligations.json"), {})
    known = load_json(os.path.join(VERIF, "known_findings.json"), {"findings": []})
    open_known = {(k["property"], k["obligation"]): k for k in known.get("findings", []) if k.get("status") == "open"}
    base = set(baseline.get(prop, []))

    errors = [r for r in results if r.get("error")]
    obligations = []
    funcs = []
    bounded = []
    extra_assumptions = set()
    for r in results:
        mine = [o for o in r["obligations"] if prop in o.get("props", [])]
        obligations.extend(mine)
        info = r.get("info", {})
        u = units.get(r["unit"])
        fbase = []
        if u is not None:
            quals = [("rules." + u.task.name)] if hasattr(u, "task") else (getattr(u, "qualnames", None) or [r["unit"].split("[")[0]])
            fbase = [q.split(".")[-1] for q in quals]
        ex = world.reach(fbase) if fbase else []
        funcs.append({"function": r["unit"], "sha256_16": r.get("sha"), "paths": info.get("paths"),
                      "obligations": len(mine), "wall_s": r.get("wall_s"),
                      "callees_reachable_by_name(inlined unless stubbed by a contract)": [x for x in ex if x not in fbase][:40],
                      "dropped_logger_statements": world.dropped_statements(ex) if ex else 0,
                      "feasibility_checks_left_open_by_the_solver(path kept)": info.get("feas_unknown", 0)})
        for b in info.get("bounded", []):
            if prop in b.get("props", [prop]):
                bounded.append(b)
        for x in info.get("assumptions", []):
            extra_assumptions.add(x)

    lines = []
    code = 0
    nviol = 0
    known_lines = []
    undecided = []
    extra = extra or {}
    for msg in extra.get("errors", []):
        print("CHECKER-ERROR: %s" % msg)
        code = 3
    if errors:
        for r in errors:
            print("CHECKER-ERROR unit=%s\n%s" % (r["unit"], r["error"][-2000:]))
        code = 3
    nreplay = 0
    samples_replayed = []
    for o in obligations:
        st = o["status"]
        if st == "discharged":
            continue
        if (prop, o["name"]) in open_known:
            if st == "failed":
                k = open_known[(prop, o["name"])]
                known_lines.append("KNOWN-FINDING: property=%s %s" % (prop, k.get("what", o["name"])))
                o["known_finding"] = True
                continue
        if st in ("undecided", "unsupported"):
            undecided.append(o)
            continue
        # failed: replay the counter-model on the real code
        nreplay += 1
        rpath = os.path.join(outdir, "replay", "%03d_%s.json" % (nreplay, o["name"].replace("/", "_").replace(":", "_")[:80]))
        rp = {"property": prop, "obligation": o["name"], "func": o["func"], "clause": o["clause"],
              "kind": o.get("kind", "rule"), "detail": o.get("detail"), "solver": "z3",
              "args": (o.get("cex") or {}).get("args"), "engine": {k: v for k, v in (o.get("cex") or {}).items() if k != "args"},
              "replay_cmd": "./check %s --replay %s" % (prop, os.path.relpath(rpath, VERIF))}
        json.dump(rp, open(rpath, "w"), indent=1, default=repr)
        verdict = {"confirmed": False}
        if o.get("confirmed_natively"):
            verdict = {"confirmed": True, "note": "found by running the real code (bounded check)"}
        elif rp["args"] is not None or o.get("kind") not in (None, "rule"):
            try:
                verdict = run_harness(rpath, world.repo)
            except Exception as e:
                verdict = {"confirmed": False, "harness_error": str(e)}
        rp["real"] = verdict
        json.dump(rp, open(rpath, "w"), indent=1, default=repr)
        rel = os.path.relpath(rpath, VERIF)
        if verdict.get("confirmed"):
            nviol += 1
            lines.append("VIOLATION property=%s replay=%s obligation=%s" % (prop, rel, o["name"]))
            o["replayed"] = True
            samples_replayed.append({"obligation": o["name"], "args": rp["args"], "real": verdict})
        elif o.get("shape_only"):
            # the obligation says "the code has the shape the proof was made for"; the replay is the behavioural
            # test of that shape.  It found no failing input: the code changed shape, not (observably) behaviour.
            o["status"] = "undecided"
            o["detail"] = (o.get("detail") or "") + " | code no longer has the expected shape, but the behavioural replay found no failing input"
            undecided.append(o)
        elif o["name"] in base or o.get("no_input_expected"):
            nviol += 1
            lines.append("VIOLATION property=%s replay=%s obligation=%s no-failing-input-found" % (prop, rel, o["name"]))
        else:
            o["status"] = "undecided"
            o["detail"] = (o.get("detail") or "") + " | counter-model did not replay on the real code and the obligation is not in the baseline"
            undecided.append(o)

    for l in known_lines:
        print(l)
    for o in undecided:
        print("UNDECIDED property=%s obligation=%s (%s) %s" % (prop, o["name"], o["status"], (o.get("detail") or "")[:300]))
    for l in lines:
        print(l)
    # obligations covered by an open known finding are reported separately: they are not claimed
    n_known = sum(1 for o in obligations if o.get("known_finding"))
    n_bounded = sum(1 for o in obligations if o.get("bounded"))       # bounded stand-ins are never counted as proved
    n_ob = sum(1 for o in obligations if not o.get("known_finding") and not o.get("bounded"))
    n_dis = sum(1 for o in obligations if o["status"] == "discharged" and not o.get("bounded"))
    if n_ob == 0 and code == 0:
        print("CHECKER-ERROR: zero obligations generated for %s (vacuity alarm)" % prop)
        code = 3
    missing = sorted(base - {o["name"] for o in obligations})
    # the static frame clauses exist once per function reachable from a parse: a function that was renamed or removed takes
    # its two clauses with it (the unit still covers every function there is; it fails on zero functions)
    missing = [m for m in missing if not m.endswith(("::writes-no-module-level-state", "::iterates-no-set-in-hash-order"))]
    if missing and code == 0 and not a.units:
        # an obligation of the committed baseline is no longer generated: the function/clause vanished
        for mname in missing[:20]:
            print("UNDECIDED property=%s obligation=%s no longer generated (function renamed or removed?)" % (prop, mname))
        code = max(code, 2)
    if nviol:
        code = 1
    elif undecided and code == 0:
        code = 3 if any(o["status"] == "unsupported" for o in undecided) else 2

    if a.update_baseline:
        baseline[prop] = sorted(o["name"] for o in obligations if o["status"] == "discharged")
        json.dump(baseline, open(os.path.join(VERIF, "baseline_obligations.json"), "w"), indent=0, sort_keys=True)
        print("baseline updated: %d obligations for %s" % (len(baseline[prop]), prop))

    backend = {"z3": 0, "cvc5": 0, "trivial": 0}
    solver_s = 0.0
    max_s = 0.0
    for o in obligations:
        for k, v in (o.get("backend") or {}).items():
            backend[k] = backend.get(k, 0) + v
        solver_s += o.get("solver_s", 0)
        max_s = max(max_s, o.get("solver_s", 0))
    from contracts import manifest_info
    pinfo = manifest_info.PROPS.get(prop, {})
    level = pinfo.get("level", "proof")
    with_vc = [o for o in obligations if o.get("vc_sample")]
    pick = (with_vc[:3] + with_vc[len(with_vc) // 2:len(with_vc) // 2 + 2] + obligations[:2])[:6] or obligations[:6]
    samples = [{"obligation": o["name"], "status": o["status"], "paths": o.get("paths"), "queries": o.get("queries"),
                "solver_s": o.get("solver_s"), "verification_condition": o.get("vc_sample")} for o in pick]
    trusted = [k + ": " + v for k, v in ASSUMPTIONS.items() if k in pinfo.get("assumptions", list(ASSUMPTIONS))]
    trusted += sorted(extra_assumptions)
    cov = {
        "obligations": n_ob, "discharged": n_dis,
        "checker_cmd": "./check %s --tier %s  (python3-vt pyvc/cli.py; z3 %s, cvc5 fallback)" % (prop, a.tier, _z3v()),
        "trusted_base": trusted,
        "functions_under_contract": funcs,
        "backend_queries": backend, "solver_time_s": round(solver_s, 2), "solver_time_max_obligation_s": round(max_s, 2),
        "solver_time_max_single_query_s": round(max([o.get("max_query_s", 0.0) for o in obligations] or [0.0]), 2),
        "solver_timeout_per_query_s": 30,
        "slowest_obligations": sorted([{"obligation": o["name"], "max_single_query_s": o.get("max_query_s", 0.0), "backend": o.get("backend")}
                                       for o in obligations if o.get("max_query_s", 0.0) >= 2.0], key=lambda x: -x["max_single_query_s"])[:8],
        "bounded": bounded,
        "known_findings": [l for l in known_lines],
        "obligations_under_open_known_findings": n_known,
        "undecided": [o["name"] for o in undecided],
        "violations": lines,
        "samples": samples + samples_replayed[:3],
        "not_covered": pinfo.get("not_covered", ""),
        "engine_self_checks": {k: v for k, v in extra.items() if k != "errors"},
        "obligation_names": [o["name"] for o in obligations] if n_ob <= 400 else [o["name"] for o in obligations[:400]],
    }
    if level != "proof":
        nb = sum(b.get("cases", 0) for b in bounded)
        cov.update({"evaluations": max(nb, 1), "distinct_nontrivial": max(2, sum(b.get("distinct", 0) for b in bounded)),
                    "rule": pinfo.get("rule", "see bounded[]")})
    ev = {"property_id": prop, "tier": a.tier, "seed": seed, "level": level, "coverage": cov,
          "assumptions": trusted, "wall_s": round(time.time() - t0, 2), "violations": nviol}
    if not os.environ.get("VERIF_NO_EVIDENCE"):
        json.dump(ev, open(os.path.join(VERIF, "evidence", "%s.json" % prop), "w"), indent=1, default=repr)
    print("%s: %d obligations, %d discharged, %d violations, %d undecided, %d known findings; %d functions; %.1fs"
          % (prop, n_ob, n_dis, nviol, len(undecided), len(known_lines), len(funcs), time.time() - t0))
    return code


def _z3v():
    try:
        import z3
        return z3.get_version_string()
    except Exception:
        return "?"
