"""Symbolic arguments (havoc of a type) with deterministic variable names, and
their concretisation from a solver model into JSON for the replay harness."""
import z3
from .values import SOpt, FinStr, SStr, SEnum, EnumMember, Obj, OpaqueStr, Tok, UTerm, is_z3
from .interp import MatchVal, GroupVal
from .models import DT
from .logic import And, Or, Not, InSet


def mk_ts(tag="ts"):
    return DT(*[z3.Int("%s.%s" % (tag, f)) for f in DT.FIELDS])


def opt_int(tag):
    return SOpt(z3.Bool(tag + "?none"), z3.Int(tag))


def mk_time(it, world, tag):
    cls = world.classes["Time"]
    o = it.instantiate(cls, [], {})
    o.fresh = False
    o.label = tag
    for f in ("year", "month", "day", "hour", "minute", "DOW"):
        o.attrs[f] = opt_int("%s.%s" % (tag, f))
    keys = sorted(world.pod_table().keys())
    pod = FinStr(keys, z3.Int(tag + ".POD"))
    it.assume(pod.domain())
    o.attrs["POD"] = SOpt(z3.Bool(tag + ".POD?none"), pod)
    o.attrs["mstart"] = z3.Int(tag + ".mstart")
    o.attrs["mend"] = z3.Int(tag + ".mend")
    return o


def mk_interval(it, world, tag):
    cls = world.classes["Interval"]
    o = it.instantiate(cls, [], {})
    o.fresh = False
    o.label = tag
    o.attrs["t_from"] = SOpt(z3.Bool(tag + ".t_from?none"), mk_time(it, world, tag + ".t_from"))
    o.attrs["t_to"] = SOpt(z3.Bool(tag + ".t_to?none"), mk_time(it, world, tag + ".t_to"))
    o.attrs["mstart"] = z3.Int(tag + ".mstart")
    o.attrs["mend"] = z3.Int(tag + ".mend")
    return o


def mk_duration(it, world, tag):
    cls = world.classes["Duration"]
    ucls = world.classes["DurationUnit"]
    u = SEnum(ucls, z3.Int(tag + ".unit"))
    it.assume(u.domain())
    o = it.instantiate(cls, [0, u.members[0]], {})
    o.fresh = False
    o.label = tag
    o.attrs["value"] = z3.Int(tag + ".value")
    o.attrs["unit"] = u
    o.attrs["mstart"] = z3.Int(tag + ".mstart")
    o.attrs["mend"] = z3.Int(tag + ".mend")
    return o


class RuleMatchVal(MatchVal):
    def __init__(self, it, pm, tag):
        present_t, cons = pm.presence(lambda t: z3.Bool("%s.%s" % (tag, t)))
        present = {}
        for name, term in present_t.items():
            b = z3.Bool("%s.g.%s" % (tag, name))
            it.assume(b == term)
            present[name] = b
        for c in cons:
            it.assume(c)
        nonempty, ints = {}, {}
        for name, g in pm.groups.items():
            if g.minw > 0:
                nonempty[name] = True
            else:
                nonempty[name] = z3.Bool("%s.ne.%s" % (tag, name))
            if g.all_digit:
                iv = z3.Int("%s.int.%s" % (tag, name))
                ints[name] = iv
                if g.ints is not None:
                    it.assume(z3.Implies(present[name], InSet(iv, g.ints)))
                else:
                    it.assume(iv >= 0)
        MatchVal.__init__(self, pm, present, nonempty, ints, {}, tag)
        self.lens = {}
        self.limits = {}

    def length(self, it, name):
        if name not in self.lens:
            g = self.pm.groups[name]
            n = z3.Int("%s.len.%s" % (self.tag, name))
            self.lens[name] = n
            it.assume(n >= g.minw)
            if g.maxw < 10 ** 6:
                it.assume(n <= g.maxw)
            if name in self.ints:
                # a digit string of length n denotes a number below 10**n
                for k in range(1, 8):
                    it.assume(z3.Implies(n <= k, self.ints[name] < 10 ** k))
                    it.assume(z3.Implies(n > k, True))
            self.limits[name] = n
        return self.lens[name]


def mk_regexmatch(it, world, pid, tag):
    cls = world.classes["RegexMatch"]
    base = world.classes["Artifact"]
    o = Obj(cls, fresh=False, label=tag)
    o.attrs["_attrs"] = ["mstart", "mend", "id"]
    o.attrs["id"] = pid
    o.attrs["key"] = "R%d" % pid
    o.attrs["match"] = RuleMatchVal(it, world.patterns[pid], tag)
    o.attrs["mstart"] = z3.Int(tag + ".mstart")
    o.attrs["mend"] = z3.Int(tag + ".mend")
    o.attrs["_text"] = OpaqueStr("match text")
    return o


# ---------------------------------------------------------------- model -> JSON
def _ev(model, t):
    if not is_z3(t):
        return t
    r = model.eval(t, model_completion=True) if model is not None else z3.simplify(t)
    if z3.is_int_value(r):
        return r.as_long()
    if z3.is_true(r):
        return True
    if z3.is_false(r):
        return False
    if z3.is_string_value(r):
        return r.as_string()
    if z3.is_rational_value(r):
        return float(r.numerator_as_long()) / float(r.denominator_as_long())
    if z3.is_algebraic_value(r):
        return float(r.approx(10).as_fraction())
    return str(r)


def concretize(model, v, world=None):
    if isinstance(v, SOpt):
        if _ev(model, v.is_none):
            return None
        return concretize(model, v.val, world)
    if v is None or isinstance(v, (bool, int, float, str)):
        return v
    if is_z3(v):
        return _ev(model, v)
    if isinstance(v, FinStr):
        i = _ev(model, v.idx)
        return v.options[i] if 0 <= i < len(v.options) else None
    if isinstance(v, SStr):
        return _ev(model, v.t)
    if isinstance(v, SEnum):
        i = _ev(model, v.idx)
        return {"enum": v.cls.name, "name": v.members[i].name}
    if isinstance(v, EnumMember):
        return {"enum": v.cls.name, "name": v.name}
    if isinstance(v, DT):
        return {"kind": "datetime", "fields": [_ev(model, x) for x in v.tup()]}
    if isinstance(v, (tuple, list)):
        return [concretize(model, x, world) for x in v]
    if isinstance(v, dict):
        return {str(k): concretize(model, x, world) for k, x in v.items()}
    if isinstance(v, (Tok, UTerm)):
        return repr(v)
    if isinstance(v, Obj):
        k = v.cls.name
        out = {"kind": k, "label": v.label}
        if k == "RegexMatch":
            mv = v.attrs["match"]
            out["id"] = v.attrs["id"]
            pres = {n: bool(_ev(model, b)) for n, b in mv.present.items()}
            ints = {n: _ev(model, t) for n, t in mv.ints.items() if pres.get(n)}
            strs = {n: _ev(model, s.t) for n, s in mv.strs.items() if pres.get(n)}
            out["present"] = pres
            out["ints"] = ints
            out["strs"] = strs
            try:
                out["witness"] = mv.pm.witness(pres, ints, strs)
            except Exception as e:  # witness generation is best effort
                out["witness"] = None
            out["pattern"] = mv.pm.text
        else:
            out["attrs"] = {a: concretize(model, x, world) for a, x in v.attrs.items()
                            if a not in ("_attrs", "match", "_text", "key")}
        out["mstart"] = concretize(model, v.attrs.get("mstart"), world)
        out["mend"] = concretize(model, v.attrs.get("mend"), world)
        return out
    if isinstance(v, OpaqueStr):
        return "<str>"
    return repr(v)
