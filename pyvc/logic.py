"""Dual-mode logic helpers.

Spec functions (contracts) are ordinary Python functions.  They are run
 * symbolically  -- arguments contain z3 terms, the result is a z3 BoolRef;
 * natively      -- arguments are plain Python values (replay under /venv,
                    where z3 is NOT installed), the result is a Python bool.
Every connective below therefore works on Python bools/ints as well as on z3
terms and only imports z3 lazily.
"""
try:  # python3-vt has z3; /venv/bin/python (replay) has not
    import z3  # type: ignore
    HAVE_Z3 = True
except Exception:  # pragma: no cover
    z3 = None
    HAVE_Z3 = False


def is_sym(x):
    return HAVE_Z3 and isinstance(x, z3.ExprRef)


def _anysym(xs):
    return any(is_sym(x) for x in xs)


def _flat(args):
    out = []
    for a in args:
        if isinstance(a, (list, tuple)):
            out.extend(_flat(a))
        else:
            out.append(a)
    return out


def And(*args):
    xs = _flat(args)
    if not _anysym(xs):
        return all(bool(x) for x in xs)
    ys = []
    for x in xs:
        if is_sym(x):
            ys.append(x)
        elif not x:
            return False
    if not ys:
        return True
    return z3.And(*ys) if len(ys) > 1 else ys[0]


def Or(*args):
    xs = _flat(args)
    if not _anysym(xs):
        return any(bool(x) for x in xs)
    ys = []
    for x in xs:
        if is_sym(x):
            ys.append(x)
        elif x:
            return True
    if not ys:
        return False
    return z3.Or(*ys) if len(ys) > 1 else ys[0]


def Not(x):
    if is_sym(x):
        return z3.Not(x)
    return not x


def Implies(a, b):
    return Or(Not(a), b)


def Iff(a, b):
    if is_sym(a) or is_sym(b):
        return tobool(a) == tobool(b)
    return bool(a) == bool(b)


def tobool(x):
    if is_sym(x):
        return x
    return z3.BoolVal(bool(x)) if HAVE_Z3 else bool(x)


def If(c, a, b):
    if is_sym(c):
        if not is_sym(a) and not is_sym(b) and a == b and type(a) == type(b):
            return a
        if isinstance(a, bool) or isinstance(b, bool) or (is_sym(a) and z3.is_bool(a)) or (is_sym(b) and z3.is_bool(b)):
            return z3.If(c, tobool(a), tobool(b))
        if isinstance(a, str) or isinstance(b, str):
            a = z3.StringVal(a) if isinstance(a, str) else a
            b = z3.StringVal(b) if isinstance(b, str) else b
        return z3.If(c, a, b)
    return a if c else b


def Eq(a, b):
    """equality that yields a Python bool on Python operands"""
    if is_sym(a) or is_sym(b):
        if isinstance(a, bool) or isinstance(b, bool):
            return tobool(a) == tobool(b)
        # a number never equals a text (1 != "1" in Python): a symbolic number against any kind of string value is False
        za, zb = is_sym(a), is_sym(b)
        num = lambda x: z3.is_int(x) or z3.is_real(x)
        strish = lambda x: isinstance(x, str) or type(x).__name__ in ("TStr", "FinStr", "SStr", "OpaqueStr", "GroupVal") \
            or (is_sym(x) and x.sort().kind() == z3.Z3_SEQ_SORT)
        if (za and num(a) and strish(b)) or (zb and num(b) and strish(a)):
            return False
        if not za and not isinstance(a, (int, float, str)) or not zb and not isinstance(b, (int, float, str)):
            return False if strish(a) != strish(b) else a == b
        return a == b
    return a == b


def Ne(a, b):
    return Not(Eq(a, b))


def Div(a, b):
    """floor division by a positive constant"""
    assert isinstance(b, int) and b > 0
    if is_sym(a):
        return a / b  # z3 Int div: floor for positive divisor
    return a // b


def Mod(a, b):
    assert isinstance(b, int) and b > 0
    if is_sym(a):
        return a % b
    return a % b


def Min(a, b):
    return If(a <= b, a, b)


def Max(a, b):
    return If(a >= b, a, b)


def InSet(x, values):
    values = sorted(set(values))
    if not is_sym(x):
        return x in values
    if not values:
        return False
    # compress into ranges
    ranges = []
    lo = hi = values[0]
    for v in values[1:]:
        if v == hi + 1:
            hi = v
        else:
            ranges.append((lo, hi))
            lo = hi = v
    ranges.append((lo, hi))
    return Or(*[And(x >= a, x <= b) if a != b else x == a for a, b in ranges])


def simplify(x):
    if is_sym(x):
        return z3.simplify(x)
    return x


def ForAllInts(bounds, body):
    """forall x1..xn in their inclusive ranges: body(x1..xn).
    bounds: [(name, lo, hi)], lo/hi may be symbolic (then the quantifier is posed to the solver with
    range guards); natively the ranges are enumerated (lo/hi are ints there)."""
    if HAVE_Z3 and (any(is_sym(lo) or is_sym(hi) for _, lo, hi in bounds) or _FORCE_SYMBOLIC_QUANT[0]):
        xs = [z3.Int("q!" + n) for n, _, _ in bounds]
        guard = And(*[And(x >= lo, x <= hi) for x, (_, lo, hi) in zip(xs, bounds)])
        b = body(*xs)
        return z3.ForAll(xs, z3.Implies(tobool(guard), tobool(b)))
    import itertools
    for vals in itertools.product(*[range(lo, hi + 1) for _, lo, hi in bounds]):
        if not body(*vals):
            return False
    return True


_FORCE_SYMBOLIC_QUANT = [False]
