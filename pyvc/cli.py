"""./check <property id> [--tier quick|thorough] [--replay file] [--update-baseline]

exit 0  property held on everything explored (KNOWN-FINDING lines possible)
exit 1  VIOLATION property=<id> replay=<path>
exit 2  undecided (solver unknown / obligation not in baseline failed without replayable input)
exit 3  checker error (unsupported construct, vacuity alarm, engine disagreement)
"""
import argparse
import json
import multiprocessing as mp
import os
import subprocess
import sys
import time
import traceback

VERIF = os.path.dirname(os.path.dirname(os.path.abspath(__file__)))
sys.path.insert(0, VERIF)
sys.setrecursionlimit(20000)

from pyvc import world as W  # noqa: E402

_G = {}


def _init(consts_path, repo):
    try:
        consts = json.load(open(consts_path))
        w = W.World(repo=repo, consts=consts)
        from contracts import registry
        _G["world"] = w
        _G["units"] = registry.build_units(w)
    except Exception:
        _G["error"] = traceback.format_exc()


def _run(args):
    name, prop, tier = args
    t0 = time.time()
    if "error" in _G:
        return {"unit": name, "error": _G["error"], "obligations": [], "info": {}}
    u = _G["units"][name]
    try:
        obs, info = u.run(_G["world"], prop, tier)
        return {"unit": name, "obligations": [o.to_json() if hasattr(o, "to_json") else o for o in obs],
                "info": info, "wall_s": round(time.time() - t0, 3), "sha": u.sha(_G["world"]),
                "kind": getattr(u, "kind", "rule")}
    except KeyError as e:
        # a function the unit is about no longer exists under that name: nothing is decided (its obligations will be
        # reported as no longer generated), it is not an error of the checker
        if isinstance(e.args[0] if e.args else None, str) and "." in e.args[0]:
            return {"unit": name, "obligations": [], "info": {"paths": 0, "missing_function": e.args[0]},
                    "wall_s": round(time.time() - t0, 3), "sha": "missing", "kind": getattr(u, "kind", "rule")}
        return {"unit": name, "error": traceback.format_exc(), "obligations": [], "info": {},
                "wall_s": round(time.time() - t0, 3)}
    except Exception:
        return {"unit": name, "error": traceback.format_exc(), "obligations": [], "info": {},
                "wall_s": round(time.time() - t0, 3)}


def main():
    ap = argparse.ArgumentParser()
    ap.add_argument("prop")
    ap.add_argument("--tier", default=os.environ.get("VERIF_TIER", "quick"))
    ap.add_argument("--replay")
    ap.add_argument("--update-baseline", action="store_true")
    ap.add_argument("--jobs", type=int, default=int(os.environ.get("VERIF_JOBS", "16")))
    ap.add_argument("--units", default="")
    a = ap.parse_args()
    if a.tier not in ("quick", "thorough"):
        a.tier = "quick"
    if a.replay:
        sys.exit(do_replay_file(a.replay))
    sys.exit(check(a))


def run_harness(path, repo):
    env = dict(os.environ)
    env["PYTHONPATH"] = repo + os.pathsep + VERIF
    env["PYTHONDONTWRITEBYTECODE"] = "1"
    p = subprocess.run([W.VENV_PY, "-W", "ignore", os.path.join(VERIF, "replay", "harness.py"), path],
                       cwd=repo, env=env, capture_output=True, text=True, timeout=600)
    try:
        return json.loads(p.stdout.strip().splitlines()[-1])
    except Exception:
        return {"confirmed": False, "harness_error": (p.stderr or p.stdout)[-1500:]}


def do_replay_file(path):
    # the path printed in a VIOLATION line is relative to /verif
    if not os.path.isabs(path):
        path = os.path.abspath(path) if os.path.exists(path) else os.path.join(VERIF, path)
    rp = json.load(open(path))
    r = run_harness(path, W.REPO)
    print(json.dumps(r, indent=1, default=repr))
    if r.get("confirmed"):
        print("VIOLATION property=%s replay=%s" % (rp.get("property"), path))
        return 1
    return 0


def check(a):
    t0 = time.time()
    prop = a.prop
    seed = int(os.environ.get("VERIF_SEED", "0") or 0)
    outdir = os.path.join(os.environ.get("VERIF_OUT") or os.path.join(VERIF, "out"), prop)
    os.makedirs(os.path.join(outdir, "replay"), exist_ok=True)
    os.makedirs(os.path.join(VERIF, "evidence"), exist_ok=True)
    # 1. constants of the real, imported package (also proves that it imports)
    try:
        consts = W.dump_constants(W.REPO)
    except Exception as e:
        print("CHECKER-ERROR: %s" % e)
        return 3
    consts_path = os.path.join(outdir, "consts.json")
    json.dump(consts, open(consts_path, "w"))
    try:
        w = W.World(repo=W.REPO, consts=consts)
        from contracts import registry
        units = registry.build_units(w)
    except Exception:
        print("CHECKER-ERROR: cannot load the sources / contracts:\n" + traceback.format_exc())
        return 3
    names = [n for n, u in units.items() if prop in u.props]
    if a.units:
        names = [n for n in names if any(x in n for x in a.units.split(","))]
    names.sort(key=lambda n: -units[n].cost)
    if not names:
        print("CHECKER-ERROR: no unit serves property %s" % prop)
        return 3
    jobs = max(1, min(a.jobs, len(names)))
    ctx = mp.get_context("fork")
    with ctx.Pool(jobs, initializer=_init, initargs=(consts_path, W.REPO)) as pool:
        results = pool.map(_run, [(n, prop, a.tier) for n in names], chunksize=1)
    from pyvc import report, selfcheck
    extra = {} if os.environ.get("VERIF_NO_SELFCHECK") else selfcheck.run(prop, a.tier, w, seed, outdir, run_harness)
    return report.finish(prop, a, results, units, w, t0, seed, run_harness, extra)


if __name__ == "__main__":
    main()
