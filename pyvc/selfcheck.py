"""Guards against vacuity and engine error, run on every check (DESIGN 2.5): canaries, the CPython
cross-check of the executor and the validation of the trusted dateutil contracts."""
import json
import os

from .vcgen import verify_function

RULE_PROPS = {"C01", "C02", "C03", "C04", "C05", "C06", "C07", "C08", "C12", "C15", "C19", "C20"}


def canaries(world, outdir, run_harness):
    from contracts import rules as R
    from contracts.generic import rule_clauses
    out = []
    tasks = {t.name: t for t in R.discover(world, strict=False)}
    for cname in ("ruleTomorrow", "ruleHHOClock", "ruleDateDate"):
        t = tasks.get(cname)
        if t is None:
            out.append({"canary": cname, "ok": False, "why": "rule not found"})
            continue
        R.compute_pred_formula(world, t)

        def ens(it, args, res, _n=cname):
            return rule_clauses(_n, world.pod_table(), it.ghost, args[0], args[1:], res, "canary/" + _n)
        obs, info = verify_function(world, "rules." + cname, lambda it: R.build_args(it, world, t),
                                    lambda it, a: it.call(t.func, a, {}), ens, [])
        failed = [o for o in obs if o.clause.startswith("canary") and o.status == "failed"]
        if not failed:
            out.append({"canary": cname, "ok": False, "why": "false contract was NOT refuted"})
            continue
        o = failed[0]
        rp = {"property": "CANARY", "obligation": o.name, "func": o.func, "clause": o.clause, "kind": "rule",
              "args": (o.cex or {}).get("args"), "spec_name": "canary/" + cname}
        path = os.path.join(outdir, "replay", "canary_%s.json" % cname)
        json.dump(rp, open(path, "w"), indent=1, default=repr)
        v = run_harness(path, world.repo)
        out.append({"canary": cname, "ok": bool(v.get("confirmed")), "refuted": True, "replayed": bool(v.get("confirmed")),
                    "why": "" if v.get("confirmed") else "counter-model did not replay: %s" % json.dumps(v)[:300]})
    return out


def run(prop, tier, world, seed, outdir, run_harness):
    extra = {"errors": []}
    if prop not in RULE_PROPS:
        return extra
    try:
        cs = canaries(world, outdir, run_harness)
        extra["canaries"] = cs
        for c in cs:
            if not c["ok"]:
                extra["errors"].append("canary %s: %s (the engine can no longer refute a false contract)" % (c["canary"], c["why"]))
    except Exception as e:
        extra["errors"].append("canaries crashed: %r" % e)
    try:
        from . import crosscheck
        r = crosscheck.run(world, seed, 8 if tier == "quick" else 60)
        extra["cpython_crosscheck"] = {k: r.get(k) for k in ("samples", "n_disagreements", "unsupported", "error")}
        if r.get("error") or r.get("n_disagreements"):
            extra["errors"].append("CPython cross-check: executor and CPython disagree: %s" % json.dumps(r.get("disagreements") or r.get("error"))[:1200])
    except Exception as e:
        extra["errors"].append("cross-check crashed: %r" % e)
    try:
        from . import trusted_check
        r = trusted_check.run(world, seed, 20000 if tier == "quick" else 300000)
        extra["trusted_contracts_vs_library"] = {k: r.get(k) for k in ("points", "n_mismatches", "max_rrule_gap_days", "rrule_gap_bound", "error")}
        if r.get("error") or r.get("n_mismatches"):
            extra["errors"].append("trusted dateutil contracts disagree with the installed library: %s" % json.dumps(r.get("mismatches") or r.get("error"))[:1200])
        elif r.get("max_rrule_gap_days", 0) > r.get("rrule_gap_bound", 0):
            extra["errors"].append("rrule gap bound violated")
    except Exception as e:
        extra["errors"].append("trusted-contract validation crashed: %r" % e)
    return extra
