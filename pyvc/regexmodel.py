"""Model of the regular-expression constants of the code (DESIGN 3.4).

A pattern string of the rule base is parsed with CPython's sre parser (after
textually inlining the (?&_name) subroutine calls of the `regex` module).  From
the parse tree we derive
  * a z3 RegLan term (look-arounds and \\b dropped: language is enlarged),
  * per named group: min width, finite language (if any) and the set of ints
    it can denote,
  * a Boolean skeleton saying which named groups can be present together,
  * a witness generator (used to turn a counter-model into a real text).
"""
import re
import sys
try:
    import re._parser as sre_parse          # py >= 3.11
    import re._constants as sre_c
except ImportError:                          # pragma: no cover
    import sre_parse
    import sre_constants as sre_c

WS_CHARS = " \t\n\r\f\v"
MAXREPEAT = sre_c.MAXREPEAT


def inline_calls(p, defines):
    """(?&_hour) -> (?:<definition>)   (regex-module subroutine call, purely textual here)"""
    def sub(m):
        name = m.group(1)
        if name not in defines:
            raise ValueError("unknown subroutine %s" % name)
        return "(?:%s)" % defines[name]
    prev = None
    while prev != p:
        prev = p
        p = re.sub(r"\(\?&(\w+)\)", sub, p)
    return p


def parse_defines(defines_str):
    """parse the (?(DEFINE)(?<_hour>...)(?P<_minute>...)...) block of rule.py"""
    s = defines_str
    assert s.startswith("(?(DEFINE)") and s.endswith(")"), s
    body = s[len("(?(DEFINE)"):-1]
    out = {}
    i = 0
    while i < len(body):
        m = re.match(r"\(\?P?<(\w+)>", body[i:])
        assert m, body[i:]
        name = m.group(1)
        j = i + m.end()
        depth = 1
        k = j
        while depth:
            c = body[k]
            if c == "\\":
                k += 2
                continue
            if c == "[":
                k += 1
                while body[k] != "]":
                    k += 2 if body[k] == "\\" else 1
            elif c == "(":
                depth += 1
            elif c == ")":
                depth -= 1
            k += 1
        out[name] = body[j:k - 1]
        i = k
    return out


def case_variants(ch):
    vs = {ch}
    for f in (str.lower, str.upper, str.swapcase, str.casefold):
        v = f(ch)
        if len(v) == 1:
            vs.add(v)
    # characters whose lower() is ch
    return vs


class GroupInfo:
    def __init__(self, name, node):
        self.name = name
        self.node = node
        lo, hi = node.getwidth()
        self.minw, self.maxw = lo, hi
        self.words = None          # finite language (set of str) or None
        self.ints = None           # set of ints denoted, when all words are digit strings
        self.all_digit = False     # every word consists of digits (language may be infinite)


class PatternModel:
    def __init__(self, pid, text, defines, ignorecase=True):
        self.pid = pid
        self.text = text
        self.inlined = inline_calls(text, defines)
        self.ic = ignorecase
        self.tree = sre_parse.parse(self.inlined, re.IGNORECASE if ignorecase else 0)
        self.groupnames = {v: k for k, v in self.tree.state.groupdict.items()}
        self.groups = {}
        self._under_repeat = set()
        self._collect(self.tree, False)
        for g in self.groups.values():
            ws = self.enum(g.node, 5000)
            if ws is not None:
                g.words = ws
                if ws and all(w.isdigit() for w in ws):
                    g.ints = {int(w) for w in ws}
                    g.all_digit = True
            else:
                g.all_digit = self._all_digit(g.node)

    # ------------------------------------------------------------ structure
    def _collect(self, sub, under_rep):
        for op, av in sub:
            if op is sre_c.SUBPATTERN:
                gid, _, _, p = av
                if gid is not None and gid in self.groupnames:
                    name = self.groupnames[gid]
                    self.groups[name] = GroupInfo(name, p)
                    if under_rep:
                        self._under_repeat.add(name)
                self._collect(p, under_rep)
            elif op is sre_c.BRANCH:
                for p in av[1]:
                    self._collect(p, under_rep)
            elif op in (sre_c.MAX_REPEAT, sre_c.MIN_REPEAT):
                lo, hi, p = av
                self._collect(p, under_rep or hi > 1)
            elif op in (sre_c.ASSERT, sre_c.ASSERT_NOT):
                pass
            elif op is getattr(sre_c, "ATOMIC_GROUP", None):
                self._collect(av, under_rep)

    def has_named(self, sub):
        for op, av in sub:
            if op is sre_c.SUBPATTERN:
                gid, _, _, p = av
                if gid is not None and gid in self.groupnames:
                    return True
                if self.has_named(p):
                    return True
            elif op is sre_c.BRANCH:
                if any(self.has_named(p) for p in av[1]):
                    return True
            elif op in (sre_c.MAX_REPEAT, sre_c.MIN_REPEAT):
                if self.has_named(av[2]):
                    return True
        return False

    def presence(self, mk_bool):
        """-> (present: name -> Bool term, constraints: list of Bool terms)
        mk_bool(tag) must return a fresh Boolean; And/Or/Not come from z3."""
        import z3
        if self._under_repeat:
            raise ValueError("named group under repetition: %s" % sorted(self._under_repeat))
        present = {}
        cons = []
        counter = [0]

        def walk(sub, active):
            for op, av in sub:
                if op is sre_c.SUBPATTERN:
                    gid, _, _, p = av
                    if gid is not None and gid in self.groupnames:
                        present[self.groupnames[gid]] = active
                    walk(p, active)
                elif op is sre_c.BRANCH:
                    alts = av[1]
                    if not any(self.has_named(p) for p in alts):
                        continue
                    sels = []
                    for p in alts:
                        counter[0] += 1
                        sels.append(mk_bool("alt%d" % counter[0]))
                    # exactly one alternative is taken iff the branch is active
                    cons.append(z3.Implies(active, z3.Or(*sels)))
                    for i in range(len(sels)):
                        cons.append(z3.Implies(sels[i], active))
                        for j in range(i + 1, len(sels)):
                            cons.append(z3.Not(z3.And(sels[i], sels[j])))
                    for s, p in zip(sels, alts):
                        walk(p, s)
                elif op in (sre_c.MAX_REPEAT, sre_c.MIN_REPEAT):
                    lo, hi, p = av
                    if not self.has_named(p):
                        continue
                    if lo == 0:
                        counter[0] += 1
                        b = mk_bool("opt%d" % counter[0])
                        cons.append(z3.Implies(b, active))
                        walk(p, b)
                    else:
                        walk(p, active)
        walk(self.tree, z3.BoolVal(True))
        return present, cons

    # ------------------------------------------------------------ languages
    def _all_digit(self, sub):
        for op, av in sub:
            if op is sre_c.LITERAL:
                if not chr(av).isdigit():
                    return False
            elif op is sre_c.IN:
                for o, a in av:
                    if o is sre_c.CATEGORY and a is sre_c.CATEGORY_DIGIT:
                        continue
                    if o is sre_c.LITERAL and chr(a).isdigit():
                        continue
                    if o is sre_c.RANGE and chr(a[0]).isdigit() and chr(a[1]).isdigit():
                        continue
                    return False
            elif op is sre_c.SUBPATTERN:
                if not self._all_digit(av[3]):
                    return False
            elif op is sre_c.BRANCH:
                if not all(self._all_digit(p) for p in av[1]):
                    return False
            elif op in (sre_c.MAX_REPEAT, sre_c.MIN_REPEAT):
                if not self._all_digit(av[2]):
                    return False
            elif op in (sre_c.AT, sre_c.ASSERT, sre_c.ASSERT_NOT):
                continue
            else:
                return False
        return True

    def _chars_of_in(self, items, limit=400):
        neg = False
        out = set()
        for o, a in items:
            if o is sre_c.NEGATE:
                neg = True
            elif o is sre_c.LITERAL:
                out.add(chr(a))
            elif o is sre_c.RANGE:
                if a[1] - a[0] > limit:
                    return None
                out.update(chr(c) for c in range(a[0], a[1] + 1))
            elif o is sre_c.CATEGORY:
                if a is sre_c.CATEGORY_DIGIT:
                    out.update("0123456789")
                elif a is sre_c.CATEGORY_SPACE:
                    out.update(WS_CHARS)
                else:
                    return None
            else:
                return None
        if neg:
            return None
        if self.ic:
            for c in list(out):
                out |= case_variants(c)
        return out

    def enum(self, sub, limit):
        """finite language of a sub-pattern as a set of words, or None (infinite / too large).
        Look-arounds and anchors denote the empty word."""
        words = {""}
        for op, av in sub:
            if op is sre_c.LITERAL:
                cs = case_variants(chr(av)) if self.ic else {chr(av)}
                nxt = {w + c for w in words for c in cs}
            elif op is sre_c.IN:
                cs = self._chars_of_in(av)
                if cs is None:
                    return None
                nxt = {w + c for w in words for c in cs}
            elif op is sre_c.SUBPATTERN:
                r = self.enum(av[3], limit)
                if r is None:
                    return None
                nxt = {w + x for w in words for x in r}
            elif op is sre_c.BRANCH:
                rs = set()
                for p in av[1]:
                    r = self.enum(p, limit)
                    if r is None:
                        return None
                    rs |= r
                nxt = {w + x for w in words for x in rs}
            elif op in (sre_c.MAX_REPEAT, sre_c.MIN_REPEAT):
                lo, hi, p = av
                if hi is MAXREPEAT or hi > 6:
                    return None
                r = self.enum(p, limit)
                if r is None:
                    return None
                reps = set()
                cur = {""}
                for k in range(hi + 1):
                    if k >= lo:
                        reps |= cur
                    if k < hi:
                        cur = {a + b for a in cur for b in r}
                        if len(cur) > limit:
                            return None
                nxt = {w + x for w in words for x in reps}
            elif op in (sre_c.AT, sre_c.ASSERT, sre_c.ASSERT_NOT):
                continue
            else:
                return None
            if len(nxt) > limit:
                return None
            words = nxt
        return words

    # ------------------------------------------------------------ RegLan
    def reglan(self, sub=None):
        import z3
        if sub is None:
            sub = self.tree
        S = z3.StringSort()

        def lit(c):
            cs = sorted(case_variants(c)) if self.ic else [c]
            rs = [z3.Re(z3.StringVal(x)) for x in cs]
            return rs[0] if len(rs) == 1 else z3.Union(*rs)

        def cat(o, a):
            if a is sre_c.CATEGORY_DIGIT:
                return z3.Range("0", "9")
            if a is sre_c.CATEGORY_NOT_DIGIT:
                return z3.Complement(z3.Range("0", "9"))
            if a is sre_c.CATEGORY_SPACE:
                return z3.Union(*[z3.Re(z3.StringVal(c)) for c in WS_CHARS])
            if a is sre_c.CATEGORY_WORD:
                return z3.Union(z3.Range("a", "z"), z3.Range("A", "Z"), z3.Range("0", "9"),
                                z3.Re(z3.StringVal("_")), z3.Range(chr(0x80), chr(0xffff)))
            raise ValueError("category %s" % a)

        def conv(sub):
            parts = []
            for op, av in sub:
                if op is sre_c.LITERAL:
                    parts.append(lit(chr(av)))
                elif op is sre_c.NOT_LITERAL:
                    parts.append(z3.Intersect(z3.AllChar(z3.ReSort(S)), z3.Complement(lit(chr(av)))))
                elif op is sre_c.ANY:
                    parts.append(z3.AllChar(z3.ReSort(S)))
                elif op is sre_c.IN:
                    neg = False
                    rs = []
                    for o, a in av:
                        if o is sre_c.NEGATE:
                            neg = True
                        elif o is sre_c.LITERAL:
                            rs.append(lit(chr(a)))
                        elif o is sre_c.RANGE:
                            lo, hi = chr(a[0]), chr(a[1])
                            rs.append(z3.Range(lo, hi))
                            if self.ic and lo.isalpha() and hi.isalpha():
                                rs.append(z3.Range(lo.swapcase(), hi.swapcase()))
                        elif o is sre_c.CATEGORY:
                            rs.append(cat(o, a))
                        else:
                            raise ValueError("IN item %s" % o)
                    r = rs[0] if len(rs) == 1 else z3.Union(*rs)
                    if neg:
                        r = z3.Intersect(z3.AllChar(z3.ReSort(S)), z3.Complement(r))
                    parts.append(r)
                elif op is sre_c.SUBPATTERN:
                    parts.append(conv(av[3]))
                elif op is sre_c.BRANCH:
                    rs = [conv(p) for p in av[1]]
                    parts.append(rs[0] if len(rs) == 1 else z3.Union(*rs))
                elif op in (sre_c.MAX_REPEAT, sre_c.MIN_REPEAT):
                    lo, hi, p = av
                    r = conv(p)
                    if hi is MAXREPEAT:
                        if lo == 0:
                            parts.append(z3.Star(r))
                        elif lo == 1:
                            parts.append(z3.Plus(r))
                        else:
                            parts.append(z3.Concat(z3.Loop(r, lo, lo), z3.Star(r)))
                    elif (lo, hi) == (0, 1):
                        parts.append(z3.Option(r))
                    else:
                        parts.append(z3.Loop(r, lo, hi))
                elif op in (sre_c.AT, sre_c.ASSERT, sre_c.ASSERT_NOT):
                    continue       # dropped: enlarges the language (sound for "for all w in L")
                elif op is sre_c.CATEGORY:
                    parts.append(cat(None, av))
                else:
                    raise ValueError("regex op %s" % op)
            if not parts:
                return z3.Re(z3.StringVal(""))
            return parts[0] if len(parts) == 1 else z3.Concat(*parts)
        return conv(sub)

    def group_reglan(self, name):
        return self.reglan(self.groups[name].node)

    # ------------------------------------------------------------ witness
    def witness(self, present, ints=None, strs=None):
        """build a word of the pattern in which exactly the named groups with
        present[name] True are taken (best effort); ints: name -> int the group must denote;
        strs: name -> exact text of the group.  Returns str or None."""
        ints = ints or {}
        strs = strs or {}

        def names_in(sub):
            out = set()
            for op, av in sub:
                if op is sre_c.SUBPATTERN:
                    gid, _, _, p = av
                    if gid is not None and gid in self.groupnames:
                        out.add(self.groupnames[gid])
                    out |= names_in(p)
                elif op is sre_c.BRANCH:
                    for p in av[1]:
                        out |= names_in(p)
                elif op in (sre_c.MAX_REPEAT, sre_c.MIN_REPEAT):
                    out |= names_in(av[2])
            return out

        def wanted(ns):
            return any(present.get(n, False) for n in ns)

        def forbidden(ns):
            return any(n in present and not present[n] for n in ns)

        def gen(sub):
            out = ""
            for op, av in sub:
                if op is sre_c.LITERAL:
                    out += chr(av)
                elif op is sre_c.NOT_LITERAL:
                    out += "x" if chr(av) != "x" else "y"
                elif op is sre_c.ANY:
                    out += "x"
                elif op is sre_c.IN:
                    cs = self._chars_of_in(av)
                    if cs:
                        out += sorted(cs)[0] if " " not in cs else " "
                    else:
                        out += "x"
                elif op is sre_c.SUBPATTERN:
                    gid, _, _, p = av
                    name = self.groupnames.get(gid) if gid is not None else None
                    if name is not None and name in strs:
                        out += strs[name]
                    elif name is not None and name in ints:
                        g = self.groups[name]
                        if g.words is not None:
                            cands = sorted((w for w in g.words if w.isdigit() and int(w) == ints[name]), key=len)
                            if not cands:
                                return None
                            out += cands[0]
                        else:
                            out += str(ints[name])
                    else:
                        r = gen(p)
                        if r is None:
                            return None
                        out += r
                elif op is sre_c.BRANCH:
                    alts = av[1]
                    pick = None
                    for p in alts:
                        ns = names_in(p)
                        if wanted(ns) and not forbidden(ns - {n for n in ns if present.get(n)}):
                            pick = p
                            break
                    if pick is None:
                        for p in alts:
                            if not forbidden(names_in(p)) or not names_in(p):
                                pick = p
                                break
                    if pick is None:
                        # every alternative sets a group that must be absent: take one whose
                        # *mandatory* groups are not forbidden
                        pick = alts[0]
                    r = gen(pick)
                    if r is None:
                        return None
                    out += r
                elif op in (sre_c.MAX_REPEAT, sre_c.MIN_REPEAT):
                    lo, hi, p = av
                    ns = names_in(p)
                    n = lo
                    if lo == 0 and wanted(ns):
                        n = 1
                    for _ in range(n):
                        r = gen(p)
                        if r is None:
                            return None
                        out += r
                elif op in (sre_c.AT, sre_c.ASSERT, sre_c.ASSERT_NOT):
                    continue
                else:
                    return None
            return out
        return gen(self.tree)
