"""Trusted contracts (A-dateutil, DESIGN 3.5) for datetime / dateutil, written
over the calendar spec.  They are *validated against the installed libraries*
on every run (replay/validate_trusted.py), not proved."""
import z3
from .values import PyRaise, Unsupported, SOpt, is_z3
from .logic import And, Or, Not, If, Div, Mod, Eq
from spec import calendar as cal


class DT:
    """datetime.datetime model; fields are Python ints or z3 Int terms"""
    FIELDS = ("year", "month", "day", "hour", "minute", "second", "microsecond")

    def __init__(self, year, month, day, hour=0, minute=0, second=0, microsecond=0):
        self.year, self.month, self.day = year, month, day
        self.hour, self.minute, self.second, self.microsecond = hour, minute, second, microsecond

    def tup(self):
        return tuple(getattr(self, f) for f in self.FIELDS)

    def ordinal(self):
        return cal.ordinal(self.year, self.month, self.day)

    def __repr__(self):
        return "DT(%s)" % ",".join(str(x) for x in self.tup())


class DateV:
    def __init__(self, year, month, day):
        self.year, self.month, self.day = year, month, day

    def tup(self):
        return (self.year, self.month, self.day)


class TD:
    """datetime.timedelta model (normalised): days, seconds, microseconds"""

    def __init__(self, days, seconds=0, microseconds=0):
        self.days, self.seconds, self.microseconds = days, seconds, microseconds


class RD:
    """dateutil.relativedelta model after _fix() normalisation"""
    REL = ("years", "months", "days", "hours", "minutes", "seconds", "microseconds", "leapdays")
    ABS = ("year", "month", "day", "hour", "minute", "second", "microsecond", "weekday")

    def __init__(self):
        for f in self.REL:
            setattr(self, f, 0)
        for f in self.ABS:
            setattr(self, f, None)


def _sign(x):
    return If(x < 0, -1, 1)


def _carry(x, base):
    """dateutil _fix: if abs(x) > base-1: s=sign(x); div,mod=divmod(x*s, base); x=mod*s; carry=div*s"""
    if isinstance(x, int):
        if abs(x) > base - 1:
            s = -1 if x < 0 else 1
            div, mod = divmod(x * s, base)
            return mod * s, div * s
        return x, 0
    s = _sign(x)
    ax = x * s
    return Mod(ax, base) * s, Div(ax, base) * s


def make_timedelta(interp, args, kwargs):
    """datetime.timedelta as a purely relative delta (days, seconds, microseconds, minutes, hours, weeks)"""
    names = ["days", "seconds", "microseconds", "milliseconds", "minutes", "hours", "weeks"]
    vals = dict(zip(names, args))
    vals.update(kwargs)
    if "milliseconds" in vals:
        raise Unsupported("timedelta(milliseconds=)")
    kw = {k: v for k, v in vals.items() if k in ("days", "seconds", "microseconds", "minutes", "hours", "weeks")}
    return make_relativedelta(interp, [], kw)


def _months_rd(months):
    """relativedelta._set_months"""
    rd = RD()
    rd.months, rd.years = _carry(months, 12)
    return rd


def relativedelta_between(interp, dt1, dt2):
    """relativedelta(dt1, dt2): whole months from dt2 towards dt1 (never overshooting), the rest as
    days/hours/minutes/seconds -- transcribed from relativedelta.__init__; the search loop moves the
    month count by at most one step"""
    months0 = (dt1.year - dt2.year) * 12 + (dt1.month - dt2.month)
    dtm0 = add_rd(interp, dt2, _months_rd(months0))
    later = interp.branch(Not(dt_compare("<", dt1, dt2)))
    if later:
        over = interp.branch(dt_compare("<", dt1, dtm0))
        months = months0 - 1 if over else months0
    else:
        over = interp.branch(dt_compare(">", dt1, dtm0))
        months = months0 + 1 if over else months0
    dtm = add_rd(interp, dt2, _months_rd(months)) if over else dtm0
    rd = _months_rd(interp.simp(months))
    td = dt_sub(interp, dt1, dtm)
    secs = td.seconds + td.days * 86400
    rd.microseconds = td.microseconds
    rd.seconds, c = _carry(secs, 60)
    rd.minutes, c = _carry(c, 60)
    rd.hours, c = _carry(c, 24)
    rd.days = c
    for f in ("seconds", "minutes", "hours", "days", "months", "years"):
        setattr(rd, f, interp.simp(getattr(rd, f)))
    return rd


def make_relativedelta(interp, args, kwargs):
    if len(args) == 2 and isinstance(args[0], DT) and isinstance(args[1], DT) and not kwargs:
        return relativedelta_between(interp, args[0], args[1])
    if args:
        raise Unsupported("relativedelta with positional arguments")
    rd = RD()
    kwargs = dict(kwargs)
    yday, yleap = 0, False
    for k in ("nlyearday", "yearday"):
        if k in kwargs:
            yv = kwargs.pop(k)
            if yv is None:
                continue
            if not isinstance(yv, int) or isinstance(yv, bool):
                raise Unsupported("relativedelta(%s=<symbolic>)" % k)
            if yv and not yday:
                yday = yv
                yleap = k == "yearday" and yv > 59
    for k, v in kwargs.items():
        if k not in RD.REL and k not in RD.ABS and k != "weeks":
            raise PyRaise("TypeError", "relativedelta() got an unexpected keyword argument %r" % k)
        v = interp.unwrap_opt_arg(v, "relativedelta(%s=None)" % k) if isinstance(v, SOpt) else v
        if isinstance(v, float) or (is_z3(v) and not z3.is_int(v)):
            raise Unsupported("relativedelta with non-integer argument")
        if k == "weeks":
            rd.days = rd.days + v * 7
        elif k in RD.REL:
            setattr(rd, k, getattr(rd, k) + v if k == "days" else v)
        else:
            setattr(rd, k, v)
    if yleap:
        rd.leapdays = -1
    if yday:
        # transcribed from relativedelta.__init__: month/day of the day number in a non-leap year
        idxs = [31, 59, 90, 120, 151, 181, 212, 243, 273, 304, 334, 366]
        for idx, ydays in enumerate(idxs):
            if yday <= ydays:
                rd.month = idx + 1
                rd.day = yday if idx == 0 else yday - idxs[idx - 1]
                break
        else:
            raise PyRaise("ValueError", "invalid year day (%d)" % yday)
    if "weeks" in kwargs and "days" in kwargs:
        pass
    # _fix(): microseconds -> seconds -> minutes -> hours -> days ; months -> years
    rd.microseconds, c = _carry(rd.microseconds, 1000000)
    rd.seconds = rd.seconds + c
    rd.seconds, c = _carry(rd.seconds, 60)
    rd.minutes = rd.minutes + c
    rd.minutes, c = _carry(rd.minutes, 60)
    rd.hours = rd.hours + c
    rd.hours, c = _carry(rd.hours, 24)
    rd.days = rd.days + c
    rd.months, c = _carry(rd.months, 12)
    rd.years = rd.years + c
    return rd


def _civil_from_ordinal(interp, o, tag, hint=None):
    """fresh (y, m, d) with valid_date and ordinal(y,m,d) == o  (ordinal is injective on valid
    dates -- lemma cal.injective, proved each run)"""
    if isinstance(o, int):
        import datetime
        dd = datetime.date(1970, 1, 1) + datetime.timedelta(days=o)
        return dd.year, dd.month, dd.day
    y = interp.fresh_int(tag + ".y")
    m = interp.fresh_int(tag + ".m")
    d = interp.fresh_int(tag + ".d")
    interp.assume(cal.valid_date(y, m, d))
    interp.assume(cal.ordinal(y, m, d) == o)
    interp.assume(And(y >= 1, y <= 9999))
    return y, m, d


def add_rd(interp, dt, rd):
    """datetime + relativedelta, transcribed from relativedelta.__radd__/__add__"""
    year = (rd.year if rd.year is not None else dt.year) + rd.years
    month = rd.month if rd.month is not None else dt.month
    if not (isinstance(rd.months, int) and rd.months == 0):
        month = month + rd.months
        year = If(month > 12, year + 1, If(month < 1, year - 1, year))
        month = If(month > 12, month - 12, If(month < 1, month + 12, month))
    day0 = rd.day if rd.day is not None else dt.day
    dim = cal.dim(year, month)
    day = If(dim <= day0, dim, day0)
    hour = rd.hour if rd.hour is not None else dt.hour
    minute = rd.minute if rd.minute is not None else dt.minute
    second = rd.second if rd.second is not None else dt.second
    micro = rd.microsecond if rd.microsecond is not None else dt.microsecond
    # dt.replace(**repl): ValueError when out of range
    okrepl = And(year >= 1, year <= 9999, month >= 1, month <= 12, day >= 1,
                 hour >= 0, hour <= 23, minute >= 0, minute <= 59, second >= 0, second <= 59,
                 micro >= 0, micro <= 999999)
    if interp.branch(Not(okrepl)):
        raise PyRaise("ValueError", "datetime.replace out of range (relativedelta)")
    days = rd.days
    if not isinstance(rd.leapdays, int):
        raise Unsupported("symbolic leapdays")
    if rd.leapdays:
        # `if self.leapdays and month > 2 and calendar.isleap(year): day += self.leapdays`
        days = days + If(And(month > 2, cal.leap(year)), rd.leapdays, 0)
    if not all(isinstance(x, int) and x == 0 for x in (rd.seconds, rd.microseconds)):
        raise Unsupported("relative seconds")
    zero_time = all(isinstance(x, int) and x == 0 for x in (rd.hours, rd.minutes))
    zero_days = isinstance(days, int) and days == 0
    simple = zero_time and zero_days and rd.weekday is None
    # keep concrete values concrete and skip the ordinal round trip when nothing moves
    y1, m1, d1 = interp.simp(year), interp.simp(month), interp.simp(day)
    if simple:
        return DT(y1, m1, d1, hour, minute, second, micro)
    if zero_time and rd.weekday is None and isinstance(days, int) and 1 <= abs(days) <= 2:
        # +-1 / +-2 days: step through the calendar directly (lemma cal.successor: ordinal moves by 1)
        y2, m2, d2 = y1, m1, d1
        for _ in range(abs(days)):
            if days > 0:
                over = And(Eq(y2, 9999), Eq(m2, 12), Eq(d2, 31))
            else:
                over = And(Eq(y2, 1), Eq(m2, 1), Eq(d2, 1))
            if interp.branch(over):
                raise PyRaise("OverflowError", "date value out of range")
            ny, nm, nd = cal.next_day(y2, m2, d2) if days > 0 else cal.prev_day(y2, m2, d2)
            ny, nm, nd = interp.simp(ny), interp.simp(nm), interp.simp(nd)
            if is_z3(ny) or is_z3(nm) or is_z3(nd):
                interp.assume(cal.ordinal(ny, nm, nd) == cal.ordinal(y2, m2, d2) + (1 if days > 0 else -1))
                interp.assume(cal.valid_date(ny, nm, nd))
            y2, m2, d2 = ny, nm, nd
        return DT(y2, m2, d2, hour, minute, second, micro)
    o = cal.ordinal(y1, m1, d1)
    if zero_time:
        o2 = o + days
        h2, mi2 = hour, minute
    else:
        tot = hour * 60 + minute + rd.hours * 60 + rd.minutes
        o2 = o + days + Div(tot, 1440) if not isinstance(tot, int) else o + days + tot // 1440
        rem = Mod(tot, 1440) if not isinstance(tot, int) else tot % 1440
        h2 = Div(rem, 60) if not isinstance(rem, int) else rem // 60
        mi2 = Mod(rem, 60) if not isinstance(rem, int) else rem % 60
    if rd.weekday is not None:
        wd = rd.weekday
        if isinstance(wd, SOpt):
            wd = interp.unwrap_opt_arg(wd, "relativedelta(weekday=None)")
        # int weekday -> weekdays[wd] (IndexError outside 0..6), n=None -> first such day, today counts
        if interp.branch(Not(And(wd >= 0, wd <= 6))):
            raise PyRaise("IndexError", "relativedelta weekday out of range")
        o2 = o2 + Mod(7 - cal.weekday(o2) + wd, 7)
    # datetime + timedelta overflow
    lo, hi = cal.ordinal(1, 1, 1), cal.ordinal(9999, 12, 31)
    if interp.branch(Not(And(o2 >= lo, o2 <= hi))):
        raise PyRaise("OverflowError", "date value out of range")
    y2, m2, d2 = _civil_from_ordinal(interp, o2, "rd")
    return DT(y2, m2, d2, interp.simp(h2), interp.simp(mi2), second, micro)


def make_datetime(interp, args, kwargs):
    names = ["year", "month", "day", "hour", "minute", "second", "microsecond"]
    vals = dict(zip(names, args))
    vals.update(kwargs)
    for n in names[:3]:
        if n not in vals:
            raise PyRaise("TypeError", "datetime() missing argument %s" % n)
    out = []
    for n in names:
        v = vals.get(n, 0)
        if isinstance(v, SOpt):
            v = interp.unwrap_opt_arg(v, "datetime(%s=None)" % n)
        if v is None:
            raise PyRaise("TypeError", "datetime(): %s is None" % n)
        out.append(v)
    y, m, d, H, M, S, us = out
    ok = And(y >= 1, y <= 9999, cal.valid_date(y, m, d), H >= 0, H <= 23, M >= 0, M <= 59,
             S >= 0, S <= 59, us >= 0, us <= 999999)
    if interp.branch(Not(ok)):
        raise PyRaise("ValueError", "datetime(): field out of range / day is out of range for month")
    return DT(y, m, d, H, M, S, us)


def dt_compare(op, a, b):
    ta, tb = a.tup(), b.tup()
    if op == "==":
        return And(*[Eq(x, y) for x, y in zip(ta, tb)])
    if op == "!=":
        return Not(And(*[Eq(x, y) for x, y in zip(ta, tb)]))
    if op == "<":
        return cal.lex_lt(ta, tb)
    if op == "<=":
        return cal.lex_le(ta, tb)
    if op == ">":
        return cal.lex_lt(tb, ta)
    if op == ">=":
        return cal.lex_le(tb, ta)
    raise Unsupported("datetime compare %s" % op)


def dt_sub(interp, a, b):
    """a - b -> timedelta; .days = floor(delta / 1 day)"""
    sa = a.ordinal() * 86400 + a.hour * 3600 + a.minute * 60 + a.second
    sb = b.ordinal() * 86400 + b.hour * 3600 + b.minute * 60 + b.second
    # microseconds: delta_us = (sa-sb)*1e6 + (ua-ub); days = floor(delta_us / 86400e6)
    dus = (sa - sb) * 1000000 + (a.microsecond - b.microsecond)
    if isinstance(dus, int):
        days = dus // 86400000000
        rem = dus % 86400000000
        return TD(days, rem // 1000000, rem % 1000000)
    days = Div(dus, 86400000000)
    rem = Mod(dus, 86400000000)
    return TD(interp.simp(days), Div(rem, 1000000), Mod(rem, 1000000))


RRULE_MAX_GAP = 4000   # days; validated against rrule and the calendar in replay/validate_trusted.py


def make_rrule(interp, args, kwargs):
    """rrule(MONTHLY, dtstart=ts, byweekday=w, bymonthday=d, count=1)[0]: the first date on/after
    dtstart's date whose weekday is w and whose day of month is d; time of day of dtstart with
    microsecond 0.  Only this shape is modelled."""
    if len(args) != 1 or set(kwargs) != {"dtstart", "byweekday", "bymonthday", "count"} or kwargs["count"] != 1:
        raise Unsupported("rrule shape")
    ts = kwargs["dtstart"]
    w = kwargs["byweekday"]
    d = kwargs["bymonthday"]
    if isinstance(w, SOpt):
        w = interp.unwrap_opt_arg(w, "rrule(byweekday=None)")
    if isinstance(d, SOpt):
        d = interp.unwrap_opt_arg(d, "rrule(bymonthday=None)")
    if interp.branch(Not(And(w >= 0, w <= 6, d >= 1, d <= 31))):
        raise PyRaise("ValueError", "rrule: weekday/monthday out of range")
    if all(isinstance(x, int) for x in (w, d) + tuple(ts.tup())):
        # concrete mode (cross-check): the contract's unique solution, found by stepping through the calendar
        y0, m0, d0 = ts.year, ts.month, ts.day
        for _ in range(RRULE_MAX_GAP + 1):
            if d0 == d and cal.weekday(cal.ordinal(y0, m0, d0)) == w:
                return RRuleResult(DT(y0, m0, d0, ts.hour, ts.minute, ts.second, 0))
            y0, m0, d0 = cal.next_day(y0, m0, d0)
        raise PyRaise("IndexError", "rrule: no occurrence within the trusted bound")
    y = interp.fresh_int("rr.y")
    m = interp.fresh_int("rr.m")
    o0 = ts.ordinal()
    o = cal.ordinal(y, m, d)
    interp.assume(And(cal.valid_date(y, m, d), cal.weekday(o) == w, o >= o0, o <= o0 + RRULE_MAX_GAP,
                      y >= 1, y <= 9999))
    # minimality: no earlier matching date.  Not posed as a quantified assumption (z3: unknown);
    # kept as a ghost instantiator that a postcondition applies to its Skolem counter-date.
    def inst(yy, mm):
        oo = cal.ordinal(yy, mm, d)
        return z3.Implies(z3.And(cal.valid_date(yy, mm, d), cal.weekday(oo) == w, oo >= o0), oo >= o)
    interp.ghost["rrule_min"] = inst
    return RRuleResult(DT(y, m, d, ts.hour, ts.minute, ts.second, 0))


class RRuleResult:
    def __init__(self, first):
        self.first = first
