"""Path exploration and proof obligations.

An *obligation* is (function, clause).  It is discharged when, on every
feasible path of the function under its precondition, `pc /\\ not clause` is
unsatisfiable.  Safety ("no exceptional exit") and frame ("no store to a
pre-existing object") are obligations of every function.
"""
import os
import time
import traceback
import z3

from .values import PyRaise, Abort, Unsupported, is_z3
from .interp import Interp
from .logic import And, Or, Not
from .symargs import concretize

MAX_PATHS = 4000


class PathResult:
    def __init__(self, it, args, kind, value):
        self.it = it
        self.args = args
        self.kind = kind          # 'return' | 'raise' | 'unsupported'
        self.value = value


def explore(world, setup, run, contracts=None, max_paths=MAX_PATHS, timeout_ms=4000, configure=None):
    """setup(it) -> args (adds the precondition with it.assume); run(it, args) -> value"""
    work = [[]]
    results = []
    stats = {"paths": 0, "aborted": 0, "checks": 0, "feas_unknown": 0}
    t_start = time.time()
    budget = float(os.environ.get("VERIF_UNIT_BUDGET_S", "900"))
    while work:
        if time.time() - t_start > budget:
            # a change of the code can blow up the number of paths of a unit: give up (exit 2), never hang
            results.append(PathResult(None, None, "unsupported", Unsupported("exploration budget of %d s used up after %d paths" % (budget, stats["paths"]))))
            break
        dec = work.pop()
        it = Interp(world, dec, timeout_ms=timeout_ms)
        if contracts:
            it.contracts = contracts
        if configure is not None:
            configure(it)
        args = None
        try:
            args = setup(it)
            it.n_setup_pc = len(it.pc)
            it.initial_heap = snapshot_heap(args)
            val = run(it, args)
            res = PathResult(it, args, "return", val)
        except PyRaise as e:
            res = PathResult(it, args, "raise", e)
        except Abort:
            work.extend(it.pending)
            if getattr(it, "cut", False):
                # a path cut at a loop invariant: it carries obligations but no result
                stats["paths"] += 1
                results.append(PathResult(it, args, "cut", None))
            else:
                stats["aborted"] += 1
            continue
        except Unsupported as e:
            res = PathResult(it, args, "unsupported", e)
        except RecursionError as e:
            res = PathResult(it, args, "unsupported", Unsupported("recursion limit"))
        work.extend(it.pending)
        stats["paths"] += 1
        stats["checks"] += it.nchecks
        stats["feas_unknown"] += it.feas_unknown
        results.append(res)
        if stats["paths"] > max_paths:
            results.append(PathResult(it, args, "unsupported", Unsupported("more than %d paths" % max_paths)))
            break
    return results, stats


def merged_formula(world, setup, fn, contracts=None):
    """Boolean term equivalent to truthy(fn(it, args)) over all its sub-paths (fn must be total and
    side-effect free); only mentions the variables created by setup."""
    results, _ = explore(world, setup, lambda it, a: it.truthy(fn(it, a)), contracts)
    disj = []
    for r in results:
        if r.kind != "return":
            raise Unsupported("predicate is not total: %s %s" % (r.kind, r.value))
        extra = r.it.pc[r.it.n_setup_pc:]
        disj.append(And(*(extra + [r.value])))
    return Or(*disj)


class Obligation:
    def __init__(self, func, clause, prop_ids=()):
        self.func = func
        self.clause = clause
        self.props = list(prop_ids)
        self.status = "discharged"      # discharged | failed | undecided | unsupported
        self.paths = 0
        self.queries = 0
        self.solver_s = 0.0
        self.backend = {"z3": 0, "cvc5": 0, "trivial": 0}
        self.cex = None                 # dict for the replay harness
        self.detail = ""

    @property
    def name(self):
        return "%s::%s" % (self.func, self.clause)

    def to_json(self):
        return {"name": self.name, "func": self.func, "clause": self.clause, "props": self.props,
                "status": self.status, "paths": self.paths, "queries": self.queries,
                "solver_s": round(self.solver_s, 4), "backend": self.backend, "cex": self.cex,
                "detail": self.detail, "kind": getattr(self, "kind", "rule"),
                "no_input_expected": getattr(self, "no_input_expected", False),
                "shape_only": getattr(self, "shape_only", False),
                "bounded": getattr(self, "bounded", False), "vc_sample": getattr(self, "vc_sample", None),
                "confirmed_natively": getattr(self, "confirmed_natively", False),
                "max_query_s": round(getattr(self, "max_query_s", 0.0), 3)}


def check_valid(it, goal, ob, timeout_ms=30000, cvc5_fallback=None):
    """is `pc => goal` valid?  returns ('unsat'|'sat'|'unknown', model)"""
    if goal is True:
        ob.backend["trivial"] += 1
        return "unsat", None
    if goal is False:
        g = z3.BoolVal(False)
    else:
        g = goal
    s = it.solver
    s.set("timeout", timeout_ms)
    t0 = time.time()
    if not getattr(ob, "vc_sample", None):
        # one verification condition per obligation is kept for the evidence file: |pc| assertions and the negated clause
        ob.vc_sample = {"path_condition_assertions": len(s.assertions()), "negated_clause_smt": z3.Not(g).sexpr()[:700]}
    s.push()
    s.add(z3.Not(g))
    s.set("timeout", min(timeout_ms, 8000))
    r = s.check()
    model = s.model() if r == z3.sat else None
    cvc5_said = None
    if r == z3.unknown:
        # the incremental solver (long push/pop history) can be far slower than a solver started from scratch on the same
        # assertions: ask cvc5 (decides these linear-arithmetic queries in about a second), then a fresh z3 (also gives a model)
        if cvc5_fallback is not None:
            cvc5_said = cvc5_fallback(s.to_smt2())
        if cvc5_said != "unsat":
            fresh = z3.Solver()
            fresh.set("timeout", timeout_ms)
            fresh.add(*s.assertions())
            r = fresh.check()
            if r == z3.sat:
                model = fresh.model()
            ob.backend["z3-fresh"] = ob.backend.get("z3-fresh", 0) + 1
    s.pop()
    s.set("timeout", timeout_ms)
    ob.queries += 1
    ob.solver_s += time.time() - t0
    ob.max_query_s = max(getattr(ob, "max_query_s", 0.0), time.time() - t0)
    if r == z3.unsat:
        ob.backend["z3"] += 1
        return "unsat", None
    if r == z3.sat:
        ob.backend["z3"] += 1
        return "sat", model
    if cvc5_said == "unsat":
        ob.backend["cvc5"] += 1
        return "unsat", None
    return "unknown", None


def run_cvc5(smt2, timeout_s=40):
    import subprocess
    import tempfile
    import os
    with tempfile.NamedTemporaryFile("w", suffix=".smt2", delete=False) as f:
        f.write("(set-logic ALL)\n" + smt2)
        fn = f.name
    try:
        p = subprocess.run(["/usr/bin/cvc5", "--strings-exp", "--tlimit=%d" % (timeout_s * 1000), fn],
                           capture_output=True, text=True, timeout=timeout_s + 5)
        out = p.stdout.strip().splitlines()
        return out[0] if out else "unknown"
    except Exception:
        return "unknown"
    finally:
        os.unlink(fn)


def verify_function(world, func_name, setup, run, ensures, props, contracts=None, allow_raises=(),
                    describe_args=None, check_frame=True, cover=None, timeout_ms=30000, prop_map=None, only_prop=None,
                    configure=None):
    """ensures(it, args, result) -> list of (clause name, [property ids], Bool term)
    returns (list of Obligation, info)"""
    t0 = time.time()
    results, stats = explore(world, setup, run, contracts, configure=configure)
    obs = {}

    def ob(clause, pids):
        if clause not in obs:
            obs[clause] = Obligation(func_name, clause, pids)
        return obs[clause]

    safety = ob("no-exceptional-exit", (prop_map or {}).get("safety", props))
    frame = ob("frame", (prop_map or {}).get("frame", props)) if check_frame else None
    covered = {} if cover is None else {n: False for n, _ in cover}
    for r in results:
        it = r.it
        for lname, lprops, lres, lmodel in getattr(it, "ob_log", []):
            o = ob(lname, lprops)
            o.paths += 1
            o.queries += 1
            o.backend["z3"] += 1
            if lres == "sat" and o.status != "failed":
                o.status = "failed"
                o.detail = "loop obligation false on a feasible path"
                o.cex = {"args": {"kind": "loop-obligation"}}
                o.no_input_expected = True
            elif lres == "unknown" and o.status == "discharged":
                o.status = "undecided"
                o.detail = "solver returned unknown"
        if r.kind == "cut":
            continue
        if r.kind == "unsupported":
            for o in obs.values():
                if o.status == "discharged":
                    o.status = "unsupported"
                    o.detail = str(r.value)
            continue
        safety.paths += 1
        if r.kind == "raise":
            if r.value.cls in allow_raises:
                continue
            res = it.solver.check()
            if res == z3.unsat:
                continue
            if res == z3.unknown:
                if safety.status == "discharged":
                    safety.status = "undecided"
                    safety.detail = "path feasibility unknown"
                continue
            if safety.status != "failed":
                safety.status = "failed"
                safety.detail = "%s at line %s: %s" % (r.value.cls, r.value.lineno, r.value.msg)
                safety.cex = make_cex(it, r, it.solver.model(), describe_args)
            continue
        # frame
        if frame is not None:
            frame.paths += 1
            fe = [e for e in it.events if e[0] == "frame"]
            if fe and frame.status != "failed":
                res = it.solver.check()
                if res == z3.sat:
                    frame.status = "failed"
                    frame.detail = "%s (line %s)" % (fe[0][1], fe[0][2])
                    frame.cex = make_cex(it, r, it.solver.model(), describe_args)
        from spec import views as _views
        _views.CURRENT_IT[0] = it
        try:
            clauses = ensures(it, r.args, r.value)
        except Unsupported as e:
            clauses = []
            safety.status = "unsupported"
            safety.detail = "contract: %s" % e
        for name, pids, goal in clauses:
            if only_prop is not None and only_prop not in pids:
                continue
            o = ob(name, pids)
            o.paths += 1
            if o.status == "failed":
                continue
            verdict, model = check_valid(it, goal, o, timeout_ms, run_cvc5)
            if verdict == "sat":
                o.status = "failed"
                o.cex = make_cex(it, r, model, describe_args)
                o.detail = "clause false on a feasible path"
            elif verdict == "unknown" and o.status == "discharged":
                o.status = "undecided"
                o.detail = "solver returned unknown"
        _views.CURRENT_IT[0] = None
        if cover is not None:
            for n, cfn in cover:
                if not covered[n]:
                    c = cfn(r.args, r.value)
                    if c is True or (c is not False and it.solver.check(c) == z3.sat):
                        covered[n] = True
    out = list(obs.values())
    if cover is not None:
        for n, _ in cover:
            o = Obligation(func_name, "cover:" + n, (prop_map or {}).get("cover", props))
            o.paths = len(results)
            if not covered[n]:
                o.status = "failed"
                o.detail = "not reachable: no feasible path satisfies the cover condition (vacuity)"
            out.append(o)
    for o in out:
        o.total_paths = stats["paths"]
    info = {"paths": stats["paths"], "checks": stats["checks"], "feas_unknown": stats["feas_unknown"],
            "wall_s": round(time.time() - t0, 3)}
    return out, info


def snapshot_heap(v, acc=None):
    """(object, copy of its attributes) for every heap object reachable from the arguments: the
    pre-state, from which counter-models are concretised (the path may have mutated the objects)"""
    from .values import Obj, SOpt
    if acc is None:
        acc = {}
    if isinstance(v, SOpt):
        snapshot_heap(v.val, acc)
    elif isinstance(v, Obj):
        if id(v) not in acc:
            acc[id(v)] = (v, dict(v.attrs))
            for x in v.attrs.values():
                snapshot_heap(x, acc)
    elif isinstance(v, (list, tuple)):
        for x in v:
            snapshot_heap(x, acc)
    elif isinstance(v, dict):
        for x in v.values():
            snapshot_heap(x, acc)
    return acc


def make_cex(it, r, model, describe_args):
    d = {"decisions": [(k, dd) for k, dd, _ in it.trace]}
    try:
        if describe_args is not None:
            d["args"] = describe_args(model, r.args)
        else:
            heap = getattr(it, "initial_heap", {})
            now = {k: dict(o.attrs) for k, (o, a) in heap.items()}
            for k, (o, a) in heap.items():
                o.attrs = dict(a)
            try:
                d["args"] = concretize(model, r.args)
            finally:
                for k, (o, a) in heap.items():
                    o.attrs = now[k]
        if r.kind == "return":
            d["engine_result"] = concretize(model, r.value)
        else:
            d["engine_raises"] = "%s: %s (line %s)" % (r.value.cls, r.value.msg, r.value.lineno)
    except Exception as e:
        d["concretize_error"] = "%s" % e
        d["trace"] = traceback.format_exc()[-800:]
    return d
