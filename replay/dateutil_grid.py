"""Real-library side of the validation of the trusted contracts (A-dateutil): evaluates
datetime/dateutil on a grid of (reference time, operation).  Run under /venv.
usage: dateutil_grid.py <seed> <n|full> -> JSON lines on stdout"""
import json
import random
import sys
from datetime import datetime, timedelta
from dateutil.relativedelta import relativedelta
from dateutil.rrule import rrule, MONTHLY

NS = [0, 1, 2, 7, 30, 31, 120, 9999]


def ops():
    out = []
    for d in (-2, -1, 1, 2):
        out.append({"days": d})
    out += [{"day": 1, "months": 1, "days": -1}, {"day": 1, "month": 1, "years": 1, "days": -1}, {"weeks": 1}, {"months": 1},
            {"years": 1}, {"hours": 12}, {"months": 3}, {"day": 1}, {"days": 1, "hours": 5}]
    for k in range(7):
        out.append({"weekday": k})
        out.append({"weekday": k, "weeks": 1})
    for h, m in ((0, 0), (23, 0), (12, 59), (6, 0)):
        out.append({"hour": h, "minute": m})
    for dd in (28, 29, 30, 31):
        out.append({"day": dd})
    out += [{"month": 2, "day": 29}, {"month": 12, "day": 31}, {"month": 4, "day": 31}]
    out += [{"yearday": 1}, {"yearday": 59}, {"yearday": 60}, {"yearday": 365}, {"yearday": 366}, {"nlyearday": 60}, {"nlyearday": 365},
            {"yearday": 200, "days": 3}, {"leapdays": -1, "month": 3, "day": 1}]
    for n in NS:
        for u in ("months", "days", "weeks", "hours", "minutes"):
            out.append({u: n})
    return out


def fields(d):
    return [d.year, d.month, d.day, d.hour, d.minute, d.second, d.microsecond]


def main():
    seed, n = int(sys.argv[1]), sys.argv[2]
    rng = random.Random(seed)
    OPS = ops()
    base = datetime(1970, 1, 1)
    ndays = (datetime(2101, 1, 1) - base).days
    if n == "full":
        pts = [(base + timedelta(days=i, hours=(i * 7) % 24, minutes=(i * 13) % 60, seconds=i % 60), op) for i in range(ndays) for op in OPS]
    else:
        pts = []
        for _ in range(int(n)):
            t = base + timedelta(days=rng.randrange(ndays), hours=rng.randrange(24), minutes=rng.randrange(60), seconds=rng.randrange(60),
                                 microseconds=rng.choice([0, 999999, rng.randrange(1000000)]))
            pts.append((t, rng.choice(OPS)))
    w = sys.stdout.write
    for t, op in pts:
        try:
            r = fields(t + relativedelta(**op))
        except Exception as e:
            r = type(e).__name__
        w(json.dumps({"k": "add", "ts": fields(t), "op": op, "r": r}) + "\n")
    # other trusted operations on a sample
    sample = pts if n != "full" else pts[::97]
    for t, _ in sample[:4000]:
        t2 = base + timedelta(days=rng.randrange(ndays), hours=rng.randrange(24), minutes=rng.randrange(60))
        w(json.dumps({"k": "sub", "a": fields(t), "b": fields(t2), "days": (t - t2).days}) + "\n")
        rd = relativedelta(t, t2)
        w(json.dumps({"k": "between", "a": fields(t), "b": fields(t2), "r": [rd.years, rd.months, rd.days, rd.hours, rd.minutes]}) + "\n")
    for t, _ in sample[:1500]:
        wd, dom = rng.randrange(7), rng.randrange(1, 32)
        r = rrule(MONTHLY, dtstart=t, byweekday=wd, bymonthday=dom, count=1)[0]
        w(json.dumps({"k": "rrule", "ts": fields(t), "wd": wd, "dom": dom, "r": fields(r)}) + "\n")
    for _ in range(3000):
        y, m, d = rng.randrange(1, 10000), rng.randrange(0, 14), rng.randrange(0, 33)
        try:
            datetime(y, m, d)
            ok = True
        except ValueError:
            ok = False
        w(json.dumps({"k": "ctor", "ymd": [y, m, d], "ok": ok}) + "\n")


main()
