"""C15, bounded stand-in for the whole search (real code under /venv): the candidates streamed by
ctparse_gen(text, ts, timeout=0, max_stack_depth=0, latent_time=False, scorer=S) against a naive
reference -- the closure of "apply any registered rule to any window" over the initial sequences of
maximal coverage, without pre-filter, dedup tables, ordering or limits.

  sound      every streamed value occurs in some production of the closure, and its reported trace
             (pattern ids, then rule names) is the trace of a derivation that produces that value;
  complete   every value (not a pattern match) of an irreducible production of the closure is streamed;
  depth      with max_stack_depth = 2 candidates may be missing but every streamed one is derivable;
for the scorers {shipped model, constant, three random seeds}.  The reference uses the real rule
registry and the real pattern elements (predicates), its own window matcher, and the real initial
sequences (_match_regex/_regex_stack have their own units).  Texts whose closure exceeds the state cap
are skipped and counted.
usage: bounded_derive.py <tier> <seed> -> JSON"""
import json
import random
import sys
import warnings
from datetime import datetime
warnings.simplefilter("ignore")

import signal


class Watchdog(Exception):
    pass


def _alarm(signum, frame):
    raise Watchdog()


signal.signal(signal.SIGALRM, _alarm)

TEXTS = ["tomorrow 8pm", "8pm tomorrow", "monday", "on monday", "next friday", "5.3.", "5.3.2021", "am 5. märz", "8:30", "8 uhr",
         "heute 17 uhr", "morgen früh", "friday 9-5", "9-5", "von 9 bis 5", "2 days", "for 2 days", "tomorrow for 2 days", "in the morning",
         "monday morning", "5pm - 7pm", "at 5", "5", "12", "1 night", "nächste woche", "monday next week", "übermorgen abend", "end of month",
         "first possible", "3 in the afternoon", "quarter to 5", "halb 5", "May 5th", "May 5th 2021", "5th of May at 3", "21.12. 15 uhr",
         "between 3 and 5", "before 5pm", "not before 5pm", "tomorrow or monday", "hello world", "", "8 9", "1 2 3", "monday tuesday"]
CAP = 6000


def key(x):
    import ctparse.types as T
    if isinstance(x, T.RegexMatch):
        return ("R", x.id, x.mstart, x.mend)
    return (type(x).__name__, x.nb_str())


def windows(prod, pattern):
    n, k = len(prod), len(pattern)
    for i in range(0, n - k + 1):
        if all(pattern[j](prod[i + j]) for j in range(k)):
            yield i, i + k


def closure(seqs, ts, rules):
    """all productions reachable from the initial sequences: {key tuple: (prod, set of traces)}"""
    seen = {}
    todo = []
    for s in seqs:
        tr = tuple(m.id for m in s)
        kk = tuple(key(x) for x in s)
        if kk not in seen:
            seen[kk] = (s, {tr})
            todo.append((s, tr))
        else:
            seen[kk][1].add(tr)
    irreducible = []
    while todo:
        prod, tr = todo.pop()
        grew = False
        for name, (fn, pattern) in rules.items():
            for a, b in windows(prod, pattern):
                res = fn(ts, *prod[a:b])
                if res is None:
                    continue
                grew = True
                new = prod[:a] + (res,) + prod[b:]
                ntr = tr + (name,)
                kk = tuple(key(x) for x in new)
                if kk in seen:
                    if ntr not in seen[kk][1] and len(seen[kk][1]) < 64:
                        seen[kk][1].add(ntr)
                        todo.append((seen[kk][0], ntr))       # the same production reached by another trace
                    continue
                if len(seen) > CAP:
                    return None, None
                seen[kk] = (new, {ntr})
                todo.append((new, ntr))
        if not grew:
            irreducible.append(prod)
    return seen, irreducible


def run(tier="quick", seed=0):
    import importlib
    C = importlib.import_module("ctparse.ctparse")
    R = importlib.import_module("ctparse.rule")
    import ctparse.types as T
    from ctparse.scorer import DummyScorer, RandomScorer
    from ctparse.time.corpus import corpus
    rng = random.Random(seed)
    texts = list(TEXTS)
    pool = [t for _, _, tests in corpus for t in tests if len(t) <= (22 if tier == "thorough" else 14)]
    rng.shuffle(pool)
    texts += pool[: (150 if tier == "thorough" else 40)]
    ts = datetime(2018, 3, 7, 12, 43)
    bad, cases, skipped = [], 0, 0
    for text in texts:
        txt = C._preprocess_string(text)
        import re as _re
        txt2 = _re.sub('#[a-zA-Z0-9_-]+', '', txt).strip()
        ms = C._match_regex(txt2, R._regex)
        seqs = C._regex_stack(txt2, ms)
        if seqs:
            cov = [s[-1].mend - s[0].mstart for s in seqs]
            seqs = [s for s, c in zip(seqs, cov) if c >= max(cov)]
        seen, irreducible = closure(seqs, ts, R.rules)
        if seen is None:
            skipped += 1
            continue
        derivable = {}
        for kk, (prod, traces) in seen.items():
            for x in prod:
                if not isinstance(x, T.RegexMatch):
                    derivable.setdefault(key(x), set()).update(traces)
        must = {key(x) for prod in irreducible for x in prod if not isinstance(x, T.RegexMatch)}
        scorers = [("shipped model", None), ("constant", DummyScorer())] + [("random %d" % k, RandomScorer(random.Random(seed * 7 + k))) for k in (1, 2, 3)]
        for sname, sc in scorers:
            for depth in (0, 2):
                cases += 1
                try:
                    signal.alarm(30)          # a broken search may not terminate: report it instead of hanging
                    try:
                        out = list(C.ctparse_gen(text, ts, timeout=0, max_stack_depth=depth, latent_time=False, scorer=sc))
                    finally:
                        signal.alarm(0)
                except Watchdog:
                    bad.append({"text": text, "scorer": sname, "max_stack_depth": depth, "what": "the search did not end within 30 s (the reference closure of this text is finite)"})
                    break
                except Exception as e:
                    bad.append({"text": text, "scorer": sname, "max_stack_depth": depth, "what": "raises %r" % e})
                    continue
                got = set()
                for p in out:
                    if p is None or p.resolution is None:
                        continue
                    k = key(p.resolution)
                    got.add(k)
                    if k not in derivable:
                        bad.append({"text": text, "scorer": sname, "max_stack_depth": depth, "what": "streamed value is not derivable", "value": k[1]})
                    elif tuple(p.production) not in derivable[k] and len(derivable[k]) < 64:
                        bad.append({"text": text, "scorer": sname, "max_stack_depth": depth, "what": "reported trace is no derivation of the value",
                                    "value": k[1], "trace": [str(t) for t in p.production]})
                if depth == 0:
                    for k in sorted(must - got):
                        bad.append({"text": text, "scorer": sname, "max_stack_depth": 0, "what": "result of a fully reduced derivation is not streamed", "value": k[1]})
        if len(bad) > 40 or sum(1 for b in bad if "did not end" in b["what"]) >= 2:
            break
    return ({"cases": cases, "distinct": len(texts) - skipped, "skipped_closure_too_large": skipped, "bad": bad[:40], "n_bad": len(bad),
                      "bound": "%d short texts (hand-written + corpus expressions up to %d characters, seed %d; closures above %d productions skipped) x 5 scorers x depth limits {none, 2}"
                               % (len(texts), 22 if tier == "thorough" else 14, seed, CAP)})


if __name__ == "__main__":
    print(json.dumps(run(sys.argv[1] if len(sys.argv) > 1 else "quick", int(sys.argv[2]) if len(sys.argv) > 2 else 0), ensure_ascii=False))
