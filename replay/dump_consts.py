"""Run under /venv/bin/python with PYTHONPATH=<repo>: dump the module-level
constants of the real, imported modules as tagged JSON on stdout."""
import sys, json, enum, types, importlib, warnings
warnings.simplefilter("ignore")


def enc(v, depth=0):
    if v is None or isinstance(v, (bool, int, float, str)):
        return v
    if isinstance(v, enum.Enum):
        return {"__enum__": [type(v).__name__, v.name, v.value]}
    if isinstance(v, tuple):
        return {"__tuple__": [enc(x, depth + 1) for x in v]}
    if isinstance(v, list):
        return [enc(x, depth + 1) for x in v]
    if isinstance(v, dict):
        return {"__dict__": [[enc(k, depth + 1), enc(x, depth + 1)] for k, x in v.items()]}
    raise TypeError(type(v))


def main():
    mods = ["ctparse.types", "ctparse.rule", "ctparse.time.rules", "ctparse.time.postprocess_latent",
            "ctparse.ctparse", "ctparse.partial_parse", "ctparse.timers", "ctparse.nb_scorer",
            "ctparse.nb_estimator", "ctparse.count_vectorizer", "ctparse.pipeline", "ctparse.corpus",
            "ctparse.scorer", "ctparse.loader"]
    out = {"modules": {}, "file": {}}
    for mn in mods:
        m = importlib.import_module(mn)
        out["file"][mn] = m.__file__
        g = {}
        for k, v in vars(m).items():
            if k.startswith("__"):
                continue
            if isinstance(v, (types.ModuleType, types.FunctionType, type)) or callable(v):
                continue
            try:
                g[k] = enc(v)
            except TypeError:
                pass
        out["modules"][mn] = g
    import ctparse.rule as R
    reg = []
    for name, (fn, pats) in R.rules.items():
        ps = []
        for p in pats:
            nm = p.__name__
            cell = p.__closure__[0].cell_contents if p.__closure__ else None
            if nm == "_regex_match":
                ps.append(["regex", cell])
            elif nm == "_dimension":
                ps.append(["dimension", cell.__name__])
            elif nm == "_predicate":
                ps.append(["predicate", cell])
            else:
                ps.append(["other", nm])
        reg.append([name, ps])
    out["registry"] = reg
    out["regex_str"] = {str(k): v for k, v in R._regex_str.items()}
    out["regex_keys"] = sorted(R._regex.keys())
    out["str_regex"] = {k: v for k, v in R._str_regex.items()}
    out["regex_cnt"] = R._regex_cnt
    out["regex_src"] = {str(k): v.pattern for k, v in R._regex.items()}
    out["regex_flags"] = {str(k): int(v.flags) for k, v in R._regex.items()}
    import regex
    out["regex_VERSION1"] = int(regex.VERSION1)
    out["regex_IGNORECASE"] = int(regex.IGNORECASE)
    try:
        C = importlib.import_module("ctparse.ctparse")
        voc = C._DEFAULT_SCORER._model.transformer.vocabulary
        out["vocab_unigrams"] = sorted(k for k in voc if " " not in k)
        out["vocab_size"] = len(voc)
        out["default_scorer"] = type(C._DEFAULT_SCORER).__name__
    except Exception as e:
        out["vocab_unigrams"] = None
        out["default_scorer"] = "error: %s" % e
    json.dump(out, sys.stdout)


main()
