"""Replay of a counter-model against the REAL code.  Runs under /venv/bin/python with
PYTHONPATH=<repo>:<verif>.   usage: harness.py <replay.json>   -> JSON verdict on stdout

The replay file carries: func (qualified name), kind, clause, args (concretised model).
The real function of the working tree is imported and called on real objects built from
the model; the contract clause is then evaluated natively (same spec code, no z3).
"""
import copy
import json
import sys
import traceback
import warnings

warnings.simplefilter("ignore")


def main():
    rp = json.load(open(sys.argv[1]))
    out = {"confirmed": False}
    try:
        kind = rp.get("kind", "rule")
        if kind == "rule":
            out = replay_rule(rp)
        else:
            from replay import handlers
            out = handlers.replay(rp)
    except Exception as e:
        out = {"confirmed": False, "harness_error": "%s: %s" % (type(e).__name__, e),
               "trace": traceback.format_exc()[-1500:]}
    print(json.dumps(out, default=repr))


# ------------------------------------------------------------------ object construction
class FakeMatch:
    """stand-in for a regex match when no text reproducing the model's groups was found"""

    def __init__(self, groups, names):
        self.groups_ = groups
        self.names = names

    def group(self, name):
        if name not in self.names:
            raise IndexError("no such group")
        return self.groups_.get(name)

    def span(self, key=0):
        return (0, 1)

    def captures(self, *a):
        return [g for g in self.groups_.values() if g]


def build(v, notes):
    import ctparse.types as T
    from datetime import datetime
    if v is None or isinstance(v, (bool, int, float, str)):
        return v
    if isinstance(v, list):
        return [build(x, notes) for x in v]
    if "enum" in v:
        return getattr(T, v["enum"])[v["name"]]
    k = v["kind"]
    if k == "datetime":
        return datetime(*v["fields"])
    if k == "Time":
        a = v["attrs"]
        t = T.Time(a.get("year"), a.get("month"), a.get("day"), a.get("hour"), a.get("minute"), a.get("DOW"), a.get("POD"))
        t.mstart, t.mend = v.get("mstart") or 0, v.get("mend") or 0
        return t
    if k == "Interval":
        a = v["attrs"]
        i = T.Interval(build(a.get("t_from"), notes), build(a.get("t_to"), notes))
        i.mstart, i.mend = v.get("mstart") or 0, v.get("mend") or 0
        return i
    if k == "Duration":
        a = v["attrs"]
        d = T.Duration(a["value"], build(a["unit"], notes))
        d.mstart, d.mend = v.get("mstart") or 0, v.get("mend") or 0
        return d
    if k == "RegexMatch":
        return build_match(v, notes)
    raise ValueError("cannot build %r" % (v,))


def build_match(v, notes):
    import ctparse.rule as R
    import ctparse.types as T
    rid = v["id"]
    rr = R._regex[rid]
    pres, ints, strs = v.get("present", {}), v.get("ints", {}), v.get("strs", {})
    names = [n for n in rr.groupindex if not n.startswith("_") and n != "R%d" % rid]
    cands = []
    if v.get("witness") is not None:
        w = v["witness"]
        cands += [w, w + " ", w + " x", "x " + w]
    real = None
    for txt in cands:
        for m in rr.finditer(txt, overlapped=True):
            ok = True
            for n in names:
                if n in pres and (m.group(n) is not None) != bool(pres[n]):
                    ok = False
                if ok and n in ints and m.group(n) is not None:
                    try:
                        if int(m.group(n)) != ints[n]:
                            ok = False
                    except ValueError:
                        ok = False
                if ok and n in strs and m.group(n) is not None and m.group(n) != strs[n]:
                    ok = False
            if ok:
                real = (txt, m)
                break
        if real:
            break
    if real is not None:
        notes.append({"regex_id": rid, "text": real[0], "real_match": True, "span": list(real[1].span("R%d" % rid))})
        rm = T.RegexMatch(rid, real[1])
    else:
        groups = {}
        for n in names:
            if pres.get(n):
                groups[n] = strs.get(n) if n in strs else (str(ints[n]) if n in ints else "x")
            else:
                groups[n] = None
        notes.append({"regex_id": rid, "real_match": False, "groups": groups,
                      "note": "no text reproducing the model's group assignment was found; duck-typed match object used"})
        rm = T.RegexMatch.__new__(T.RegexMatch)
        T.Artifact.__init__(rm)
        rm._attrs = ["mstart", "mend", "id"]
        rm.key = "R%d" % rid
        rm.id = rid
        rm.match = FakeMatch(groups, names)
        rm._text = "?"
    if v.get("mstart") is not None:
        rm.mstart, rm.mend = v["mstart"], v["mend"]
    return rm


# ------------------------------------------------------------------ views of real objects
def view(o):
    from spec.views import NObj
    import ctparse.types as T
    if isinstance(o, T.Time):
        return NObj("Time", {f: getattr(o, f) for f in ("year", "month", "day", "hour", "minute", "DOW", "POD",
                                                         "mstart", "mend")}, o)
    if isinstance(o, T.Interval):
        return NObj("Interval", {"t_from": view(o.t_from), "t_to": view(o.t_to), "mstart": o.mstart, "mend": o.mend}, o)
    if isinstance(o, T.Duration):
        return NObj("Duration", {"value": o.value, "unit": o.unit, "mstart": o.mstart, "mend": o.mend}, o)
    if isinstance(o, T.RegexMatch):
        return NObj("RegexMatch", {"match": o.match, "id": o.id, "mstart": o.mstart, "mend": o.mend}, o)
    return o


def snapshot(o):
    import ctparse.types as T
    if isinstance(o, T.RegexMatch):
        return ("RegexMatch", o.id, o.mstart, o.mend)
    if isinstance(o, T.Artifact):
        return (type(o).__name__,) + tuple((k, snapshot(x)) for k, x in sorted(vars(o).items()) if k != "_attrs")
    if isinstance(o, (list, tuple)):
        return tuple(snapshot(x) for x in o)
    return repr(o)


def raw_rule(name):
    import ctparse.rule as R
    w = R.rules[name][0]
    for c in (w.__closure__ or ()):
        f = c.cell_contents
        if callable(f) and getattr(f, "__name__", None) == name:
            return f
    return w


def replay_rule(rp):
    import ctparse.types as T
    notes = []
    name = rp["func"].split(".")[1].split("[")[0]
    args = [build(a, notes) for a in rp["args"]]
    f = raw_rule(name)
    before = snapshot(args)
    out = {"func": rp["func"], "clause": rp["clause"], "notes": notes}
    try:
        res = f(*args)
        exc = None
    except Exception as e:
        res, exc = None, e
        out["real_exception"] = "%s: %s" % (type(e).__name__, e)
    after = snapshot(args)
    out["real_result"] = repr(res)
    clause = rp["clause"]
    if clause == "no-exceptional-exit":
        out["confirmed"] = exc is not None
        return out
    if exc is not None:
        out["confirmed"] = False
        out["note"] = "the real function raised instead of returning (different violation)"
        return out
    if clause == "frame":
        out["confirmed"] = before != after
        out["args_before"], out["args_after"] = repr(before)[:600], repr(after)[:600]
        return out
    if clause.startswith("cover:"):
        out["confirmed"] = False
        return out
    import ctparse.types as T
    from contracts.generic import rule_clauses
    cl = rule_clauses(name, T.pod_hours, {}, args[0], [view(a) for a in args[1:]], view(res), rp.get("spec_name"))
    for cname, props, val in cl:
        if cname == clause:
            out["clause_value"] = bool(val)
            out["confirmed"] = not bool(val)
            return out
    out["note"] = "clause not applicable to the real result"
    return out


if __name__ == "__main__":
    main()
