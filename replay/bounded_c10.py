"""Bounded stand-in for the C10 clause "the subject drops every word lying wholly inside a pattern
match that the returned resolution was built from, keeps every inert word, in order" on the real
ctparse(): inert texts x multi-word time expressions (both word orders) x position (before / after /
in the middle).  Only cases where the returned resolution spans the whole expression are judged:
then every word of the expression lies inside a match the resolution was built from, so the subject
must be the subject of the inert text alone (the no-match path).  Run under /venv.
usage: bounded_c10.py <tier> -> JSON"""
import json
import sys
import warnings
from datetime import datetime
warnings.simplefilter("ignore")

INERT = ["#home shop #home", "call bob", "gym", "pay rent #home", "la la land", "#a review #b-c notes"]
EXPRS = ["9am monday", "monday 9am", "tomorrow at 5pm", "5pm tomorrow", "friday 8pm-9pm", "8pm-9pm friday",
         "3 Feb 2020", "on friday at 10:30", "10:30 on friday", "next week", "in 3 days", "may 5th at noon",
         "at noon may 5th", "tomorrow morning", "morning tomorrow", "monday", "8pm"]
EXTRA = ["from 9 to 11 on friday", "friday from 9 to 11", "2020-02-03 14:00", "14:00 2020-02-03", "on the 5th at 7 pm",
         "tonight", "day after tomorrow 9am", "9am day after tomorrow"]


def main():
    tier = sys.argv[1] if len(sys.argv) > 1 else "quick"
    from ctparse import ctparse
    ts = datetime(2020, 3, 7, 12, 43)
    exprs = EXPRS + (EXTRA if tier == "thorough" else [])
    bad, cases, judged = [], 0, 0
    for inert in INERT:
        base = ctparse(inert, ts=ts, timeout=0)
        if base is None or base.resolution is not None:
            continue
        import re
        want = re.findall(r"#([A-Za-z_][A-Za-z0-9_-]*)", inert)
        cases += 1
        judged += 1
        if base.labels != want:
            bad.append({"text": inert, "labels": base.labels, "expected_labels": want, "subject": base.subject,
                        "expected_subject": base.subject})
        words = inert.split()
        for e in exprs:
            variants = [(inert + " " + e, len(inert) + 1), (e + " " + inert, 0)]
            if len(words) > 1:
                head = " ".join(words[:1])
                variants.append((head + " " + e + " " + " ".join(words[1:]), len(head) + 1))
            for text, at in variants:
                cases += 1
                r = ctparse(text, ts=ts, timeout=0)
                if r is None or r.resolution is None:
                    continue
                # position of the expression in the text the search sees (labels removed, normalised): recompute
                seen = " ".join(w for w in text.split() if not w.startswith("#"))
                pos = seen.find(e)
                if pos < 0 or r.resolution.mstart > pos or r.resolution.mend < pos + len(e):
                    continue
                judged += 1
                if r.subject != base.subject or r.labels != base.labels:
                    bad.append({"text": text, "expression": e, "resolution": str(r.resolution),
                                "span": [r.resolution.mstart, r.resolution.mend], "subject": r.subject, "labels": r.labels,
                                "expected_subject": base.subject, "expected_labels": base.labels})
    print(json.dumps({"bound": "%d inert texts x %d time expressions (both word orders) x up to 3 positions through the real "
                               "ctparse(text, ts, timeout=0); judged when the returned resolution spans the whole expression"
                               % (len(INERT), len(exprs)),
                      "cases": cases, "judged": judged, "bad": bad[:10]}))


if __name__ == "__main__":
    main()
