"""shared by the bounded stand-ins: an exception raised INSIDE the library while a bounded check drives the real code
is a finding (reported as a failing case), an exception of the check itself stays a crash"""
import json
import traceback


def run_guarded(main, what):
    try:
        main()
    except Exception as e:
        tb = traceback.extract_tb(e.__traceback__)
        inside = [f for f in tb if "/ctparse/" in f.filename]
        if not inside:
            raise
        print(json.dumps({"cases": 0, "distinct": 0, "crossing": 0, "runs": 0, "runs_without_inert_word": 0, "n_bad": 1,
                          "bound": "aborted at the first exception raised inside the library",
                          "bad": [{"key": "crash", "what": what, "exception": repr(e),
                                   "where": "%s:%d %s" % (inside[-1].filename.split("/ctparse/")[-1], inside[-1].lineno, inside[-1].name)}]}))
