"""Bounded stand-in for the monotonicity clause of C17 (real code, /venv): adding another copy of a
positive example never lowers the log-odds the retrained model gives to that example's trace.
(The unbounded argument is the textbook-NB contract of C16 plus the convexity lemma in DESIGN; this
script samples it on the real training entry point.)
usage: bounded_c17.py <tier> <seed> -> JSON on stdout"""
import itertools
import json
import random
import sys
import warnings
warnings.simplefilter("ignore")


def log_odds(model, doc):
    lp = model.predict_log_proba([doc])[0]
    return lp[1] - lp[0]


def main():
    tier = sys.argv[1] if len(sys.argv) > 1 else "quick"
    seed = int(sys.argv[2]) if len(sys.argv) > 2 else 0
    from ctparse.nb_scorer import train_naive_bayes
    rng = random.Random(seed)
    bad, cases, distinct = [], 0, set()

    def probe(X, y, i, kmax):
        nonlocal cases
        prev = None
        for k in range(kmax + 1):
            Xk, yk = X + [X[i]] * k, y + [True] * k
            s = log_odds(train_naive_bayes(Xk, yk), X[i])
            cases += 1
            if prev is not None and s < prev - 1e-9 and len(bad) < 5:
                bad.append({"train": X, "labels": y, "duplicated_example": X[i], "copies": k, "score_before": prev, "score_after": s})
                return
            prev = s
    # exhaustive small scope: one positive, one negative document over {a,b}, lengths 1..3 (repeated tokens included)
    small = [list(t) for n in (1, 2, 3) for t in itertools.product("ab", repeat=n)]
    for d1 in small:
        for d2 in small:
            distinct.add((tuple(d1), tuple(d2)))
            probe([d1, d2], [True, False], 0, 2)
    # random corpora: varying alphabet, lengths, class balance, repeated tokens
    n_rand = 20000 if tier == "thorough" else 3000
    for _ in range(n_rand):
        alpha = "abcdefgh"[: rng.choice([1, 2, 2, 2, 2, 3, 3, 5, 8])]      # small alphabets: many repeated n-grams
        n = rng.randint(2, 14)
        X = [[rng.choice(alpha) for _ in range(rng.randint(1, 9))] for _ in range(n)]
        y = [rng.random() < rng.choice([0.2, 0.5, 0.8]) for _ in range(n)]
        if not any(y):
            y[rng.randrange(n)] = True
        if all(y):
            y[rng.choice([j for j in range(n)])] = False
            if not any(y):
                continue
        pos = [j for j in range(n) if y[j]]
        i = rng.choice(pos)
        distinct.add(tuple(map(tuple, X)) + (tuple(y), i))
        probe(X, y, i, rng.randint(1, 4))
    print(json.dumps({"cases": cases, "distinct": len(distinct), "bad": bad,
                      "bound": "every training set {one positive, one negative document of length 1..3 over {a,b}} with 0..2 extra copies of the positive one; "
                               "%d random corpora (2..14 documents of length 1..9 over 1..8 tokens, seed %d) with a random positive example duplicated 1..4 times" % (n_rand, seed)}))


from replay._guard import run_guarded  # noqa: E402
run_guarded(main, 'the real training entry point raises')
