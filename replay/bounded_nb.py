"""Bounded stand-in for the vectoriser / fit / predict pipeline (C16): exhaustive small scope,
real code vs. the independent textbook implementation spec/nb.py.  Run under /venv.
usage: bounded_nb.py <tier>   -> JSON on stdout"""
import itertools
import json
import math
import os
import sys
import tempfile
import warnings
warnings.simplefilter("ignore")


def docs_over(alpha, lo, hi):
    for n in range(lo, hi + 1):
        for t in itertools.product(alpha, repeat=n):
            yield list(t)


def main():
    tier = sys.argv[1] if len(sys.argv) > 1 else "quick"
    from ctparse.nb_scorer import train_naive_bayes, save_naive_bayes, NaiveBayesScorer
    from ctparse.count_vectorizer import CountVectorizer
    from spec import nb as SPEC
    train_docs = list(docs_over("ab", 1, 3 if tier == "thorough" else 2))
    queries = list(docs_over("abc", 0, 3))
    cases = 0
    distinct = set()
    bad = []
    for d1 in train_docs:
        for d2 in train_docs:
            X, y = [d1, d2], [True, False]
            real = train_naive_bayes(X, y)
            spec = SPEC.fit(X, [1, -1], 1.0, 1, 3)
            if real.transformer.vocabulary != spec["vocab"]:
                bad.append({"train": X, "what": "vocabulary", "real": real.transformer.vocabulary, "spec": spec["vocab"]})
                continue
            for q in queries:
                cases += 1
                distinct.add((tuple(d1), tuple(d2), tuple(q)))
                got = real.predict_log_proba([q])[0]
                want = SPEC.predict_log_proba(spec, q)
                ok = all(abs(g - w) < 1e-9 for g, w in zip(got, want)) and all(math.isfinite(g) for g in got) \
                    and abs(math.exp(got[0]) + math.exp(got[1]) - 1.0) < 1e-9
                if not ok and len(bad) < 5:
                    bad.append({"train": X, "labels": [1, -1], "query": q, "real": list(got), "textbook": list(want)})
        if len(bad) >= 5:
            break
    # n-gram generation for other ranges
    for rng in ((1, 1), (2, 3), (1, 3), (2, 2)):
        for d in docs_over("abc", 0, 4):
            cases += 1
            got = list(CountVectorizer._create_ngrams(rng, [d])[0])
            want = SPEC.ngrams(d, rng[0], rng[1])
            if got != want and len(bad) < 5:
                bad.append({"ngram_range": rng, "document": d, "real": got, "spec": want})
    # a pipeline fitted a second time on another corpus behaves like a fresh one fitted on that corpus
    Xa, ya = [["a", "b"], ["b", "c"]], [True, False]
    Xb, yb = [["c", "d", "c"], ["a", "d"], ["e"]], [False, True, True]
    refit = train_naive_bayes(Xa, ya).fit(Xb, [1 if t else -1 for t in yb])
    fresh = train_naive_bayes(Xb, yb)
    for q in queries + [["c", "d"], ["e", "a", "d"]]:
        cases += 1
        if list(refit.predict_log_proba([q])[0]) != list(fresh.predict_log_proba([q])[0]) and len(bad) < 5:
            bad.append({"what": "a pipeline fitted again on another corpus differs from a fresh one fitted on that corpus", "first_corpus": Xa,
                        "second_corpus": Xb, "query": q, "refitted": list(refit.predict_log_proba([q])[0]), "fresh": list(fresh.predict_log_proba([q])[0])})
    # persistence: saving and re-loading changes no score
    X, y = [["a", "b"], ["b", "c", "a"], ["c"]], [True, False, True]
    mdl = train_naive_bayes(X, y)
    with tempfile.TemporaryDirectory() as td:
        fn = os.path.join(td, "m.pbz")
        save_naive_bayes(mdl, fn)
        re = NaiveBayesScorer.from_model_file(fn)
        for q in queries:
            cases += 1
            if mdl.predict_log_proba([q]) != re._model.predict_log_proba([q]) and len(bad) < 5:
                bad.append({"what": "save/load changed a score", "query": q})
    print(json.dumps({"cases": cases, "distinct": len(distinct), "bad": bad,
                      "bound": "training sets of two documents (lengths 1..%d over {a,b}, one per class) x queries of length 0..3 over {a,b,c}; n-gram ranges (1,1),(2,2),(2,3),(1,3) on documents up to length 4; one save/load round trip"
                               % (3 if tier == "thorough" else 2)}))


try:
    main()
except Exception as e:       # the REAL pipeline raised on one of the small training sets / queries: that is a finding, not a crash of the check
    import traceback
    tb = traceback.extract_tb(e.__traceback__)
    inside = [f for f in tb if "/ctparse/" in f.filename]
    if not inside:
        raise
    print(json.dumps({"cases": 0, "distinct": 0, "bound": "aborted at the first exception raised inside the library",
                      "bad": [{"what": "the real pipeline raises on a small training set / query", "exception": repr(e),
                               "where": "%s:%d %s" % (inside[-1].filename.split("/ctparse/")[-1], inside[-1].lineno, inside[-1].name)}]}))
