"""Bounded stand-ins for the search infrastructure (C15), real code under /venv:
 (1) the rule pre-filter (_filter_rules/_seq_match) never drops a rule whose pattern could still be
     completed on the token sequence (declarative embedding, all shapes up to length 4);
 (2) _match_regex reports a match for every (pattern, start offset) at which the pattern matches,
     sorted by span (all texts of a pool).
usage: bounded_search.py <tier> -> JSON"""
import itertools
import json
import sys
import warnings
warnings.simplefilter("ignore")


def embeds(pat, seq):
    """pat: list of ('R', id) / ('N',); seq: list of ids.  Can the regex positions of pat be aligned,
    in order, with equal ids in seq, leaving at least one element for every non-regex position?"""
    runs, rs, k = [], [], 0
    for p in pat:
        if p[0] == "R":
            runs.append(k)
            rs.append(p[1])
            k = 0
        else:
            k += 1
    runs.append(k)
    if not rs:
        return len(seq) >= runs[0] and len(pat) > 0 and len(seq) > 0 if pat else True

    def rec(t, start):
        if t == len(rs):
            return len(seq) - start >= runs[t]
        for j in range(start + runs[t], len(seq)):
            if seq[j] == rs[t] and rec(t + 1, j + 1):
                return True
        return False
    return rec(0, 0)


def main():
    tier = sys.argv[1] if len(sys.argv) > 1 else "quick"
    import importlib
    import ctparse.rule as R
    import ctparse.types as T
    PP = importlib.import_module("ctparse.partial_parse")
    C = importlib.import_module("ctparse.ctparse")
    n = 5 if tier == "thorough" else 4
    bad, cases = [], 0

    class FM:
        def __init__(self, i):
            self.i = i

        def span(self, k):
            return (self.i, self.i + 1)

        def group(self, k):
            return "x"
    kinds = [("R", 100), ("R", 101), ("N",)]
    pats = []
    for L in range(1, n + 1):
        for p in itertools.product(kinds, repeat=L):
            if any(a[0] == "R" and b[0] == "R" for a, b in zip(p, p[1:])):
                continue
            pats.append(list(p))
    nonregex = R.predicate("isDOM")
    for L in range(1, n + 1):
        for ids in itertools.product((100, 101, 102), repeat=L):
            seq = tuple(T.RegexMatch(i, FM(k)) for k, i in enumerate(ids))
            rules = {}
            for pi, p in enumerate(pats):
                rules["r%d" % pi] = (None, [R.regex_match(x[1]) if x[0] == "R" else nonregex for x in p])
            pp = PP.PartialParse(seq, tuple(ids))
            got = set(pp._filter_rules(rules))
            for pi, p in enumerate(pats):
                cases += 1
                if embeds(p, list(ids)) and "r%d" % pi not in got and len(bad) < 5:
                    bad.append({"check": "pre-filter", "pattern": p, "sequence": list(ids), "problem": "rule dropped although its pattern can still be completed"})
    # (2) _match_regex
    pool = ["12-12-12", "tomorrow 8pm", "3 4 5", "monday or tuesday 9-5", "1.2.2020 - 3.2.2020", "von 10 bis 2 uhr", "8 heute",
            "sechzehn tage", "on the 27th for one day", "11 11 11 11"]
    for txt in pool:
        ms = C._match_regex(txt, R._regex)
        keys = [(m.mstart, m.mend) for m in ms]
        cases += 1
        if keys != sorted(keys) and len(bad) < 8:
            bad.append({"check": "_match_regex", "text": txt, "problem": "matches not sorted by (start, end)"})
        have = {(m.id, m.mstart) for m in ms}
        for rid, rr in R._regex.items():
            for i in range(len(txt)):
                mm = rr.match(txt, i)
                if mm is not None and mm.start() == i:
                    cases += 1
                    if (rid, mm.span("R%d" % rid)[0]) not in have and len(bad) < 8:
                        bad.append({"check": "_match_regex", "text": txt, "pattern_id": rid, "offset": i, "would_match": mm.group(0),
                                    "problem": "a match at this offset is not reported"})
    print(json.dumps({"cases": cases, "distinct": cases, "bad": bad,
                      "bound": "pre-filter: every pattern shape of length <= %d over {regex 100, regex 101, non-regex} x every token sequence of length <= %d over three ids; _match_regex: every (pattern, offset) of %d pool texts" % (n, n, len(pool))}))


from replay._guard import run_guarded  # noqa: E402
run_guarded(main, 'the real pre-filter / _match_regex raises')
