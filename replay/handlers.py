"""Replay handlers for the non-rule functions (run under /venv)."""
import types as pytypes


def replay(rp):
    func = rp["func"]
    for prefix, h in HANDLERS:
        if func.startswith(prefix):
            return h(rp)
    return {"confirmed": False, "note": "no replay handler for %s" % func}


def _common(rp, args, call, clauses_fn, frame_args):
    from replay.harness import snapshot
    out = {"func": rp["func"], "clause": rp["clause"]}
    before = snapshot(frame_args)
    try:
        res = call()
        exc = None
    except Exception as e:
        res, exc = None, e
        out["real_exception"] = "%s: %s" % (type(e).__name__, e)
    after = snapshot(frame_args)
    out["real_result"] = repr(res)
    clause = rp["clause"]
    if clause == "no-exceptional-exit":
        out["confirmed"] = exc is not None
        return out
    if exc is not None:
        out["confirmed"] = False
        out["note"] = "the real function raised instead of returning"
        return out
    if clause == "frame":
        out["confirmed"] = before != after
        return out
    for cname, props, val in clauses_fn(res):
        if cname == clause:
            out["clause_value"] = bool(val)
            out["confirmed"] = not bool(val)
            return out
    out["note"] = "clause not applicable to the real result"
    return out


def _env():
    import ctparse.types as T
    from contracts.generic import Env
    return Env(T.pod_hours, {})


def h_postprocess(rp):
    from replay.harness import build, view
    from contracts import func_specs as FS
    from ctparse.time.postprocess_latent import apply_postprocessing_rules
    notes = []
    ts, art = [build(a, notes) for a in rp["args"]]
    return _common(rp, [ts, art], lambda: apply_postprocessing_rules(ts, art),
                   lambda res: FS.postprocess_clauses(_env(), ts, view(art), view(res)), [art])


def h_accessor(rp):
    from replay.harness import build, view
    from contracts import func_specs as FS
    notes = []
    (o,) = [build(a, notes) for a in rp["args"]]
    cls, attr = rp["func"].split(".")[1:3]
    cl = {("Time", "start"): FS.time_start_clauses, ("Time", "end"): FS.time_end_clauses,
          ("Time", "dt"): FS.time_dt_clauses, ("Interval", "start"): FS.interval_start_clauses,
          ("Interval", "end"): FS.interval_end_clauses}[(cls, attr)]
    return _common(rp, [o], lambda: getattr(o, attr), lambda res: cl(_env(), view(o), view(res)), [o])


def h_wrapper(rp):
    from replay.harness import build, view
    from contracts import func_specs as FS
    import ctparse.rule as R
    notes = []
    ts = build(rp["args"][0], notes)
    args = [build(a, notes) for a in rp["args"][1]]
    fdesc = rp["args"][2]
    fres = None
    if fdesc is not None:
        lab = fdesc.get("label", "")
        idx = [i for i, a in enumerate(rp["args"][1]) if a.get("label") == lab]
        fres = args[idx[0]] if idx else build(fdesc, notes)
    w = next(iter(R.rules.values()))[0]
    seen = {}

    def f(ts_, *aa):
        seen["args"] = (ts_,) + aa
        return fres
    cell = pytypes.CellType(f)
    wrapper = pytypes.FunctionType(w.__code__, w.__globals__, "wrapper", w.__defaults__, (cell,))

    def clauses(res):
        out = FS.wrapper_clauses(_env(), ts, [view(a) for a in args], view(fres), view(res))
        fwd = seen.get("args")
        out.append(("arguments-forwarded", [], fwd is not None and len(fwd) == len(args) + 1 and fwd[0] is ts
                    and all(x is y for x, y in zip(fwd[1:], args))))
        return out
    return _common(rp, args, lambda: wrapper(ts, *args), clauses, args)


def h_eq(rp):
    from replay.harness import build, view
    from contracts import func_specs as FS
    notes = []
    a, b = [build(x, notes) for x in rp["args"]]
    return _common(rp, [a, b], lambda: (a == b, hash(a) == hash(b)),
                   lambda res: FS.eq_clauses(_env(), view(a), view(b), res[0], res[1]), [a, b])


def h_roundtrip(rp):
    from replay.harness import build, view
    from contracts import func_specs as FS
    from ctparse.corpus import parse_nb_string
    import ctparse.types as T
    notes = []
    (x,) = [build(v, notes) for v in rp["args"]]

    def call():
        r = parse_nb_string(x.nb_str())
        return (r, r == x)

    def clauses(res):
        shape = None
        if isinstance(x, T.Time):
            s = str(x)
            shape = s[0] in "0123456789X" and s[-1] == ")" and " - " not in s
        return FS.roundtrip_clauses(_env(), view(x), view(res[0]), res[1], shape)
    return _common(rp, [x], call, clauses, [x])


def h_reglan(rp):
    import ctparse.rule as R
    a = rp["args"]
    rr = R._regex[a["pid"]]
    w = a["word"]
    m = rr.fullmatch(w)
    out = {"func": rp["func"], "clause": rp["clause"], "word": w, "fullmatch": m is not None}
    if m is None:
        # the RegLan model drops look-arounds; try the word in a neutral context
        for ctx in (w + "x", "x " + w, w + " x"):
            for mm in rr.finditer(ctx, overlapped=True):
                if mm.group("R%d" % a["pid"]) == w:
                    m = mm
                    out["context"] = ctx
                    break
            if m:
                break
    if m is None:
        out["confirmed"] = False
        return out
    c = rp["clause"]
    out["confirmed"] = {"not-nullable": w == "", "no-leading-blank": w[:1].isspace(),
                        "no-trailing-blank": w[-1:].isspace()}.get(c, False)
    if out["confirmed"] and c == "no-trailing-blank":
        # user-visible effect: the span of the resolution includes the blank
        try:
            from ctparse.ctparse import _match_regex
            ms = [x for x in _match_regex(w + "zzz", {a["pid"]: rr}) if x.mend - x.mstart == len(w)]
            out["span_in_text"] = [(x.mstart, x.mend, repr((w + "zzz")[x.mstart:x.mend])) for x in ms][:2]
        except Exception as e:
            out["span_note"] = str(e)
    return out


HANDLERS = [("regex[", h_reglan),
            ("types.Artifact.__eq__", h_eq), ("corpus.parse_nb_string.nb_str", h_roundtrip),
            ("postprocess_latent.apply_postprocessing_rules", h_postprocess),
            ("types.Time.", h_accessor), ("types.Interval.", h_accessor),
            ("rule.rule.fwrapper.wrapper", h_wrapper)]
