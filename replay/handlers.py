"""Replay handlers for the non-rule functions (run under /venv)."""
import types as pytypes


def h_hashseed(rp):
    """run the parser and the scorer pipeline in sub-processes that differ only in PYTHONHASHSEED and compare
    everything they print (scores with full precision, candidates in stream order) byte by byte"""
    import os
    import subprocess
    import sys
    prog = r'''
import warnings; warnings.simplefilter("ignore")
from datetime import datetime
from ctparse import ctparse_gen
from ctparse.nb_scorer import train_naive_bayes
ts = datetime(2018, 3, 7, 12, 43)
for t in ["tomorrow 8pm", "May 5th 2021 5:30pm - 6:45pm", "monday or tuesday 9-5", "heute 17 uhr bis morgen 9 uhr", "1.2.2020 - 3.2.2020 for 2 days",
          "next friday 12:30 - 14:00 #work", "am 5. märz um 8 uhr", "in 2 weeks at noon"]:
    for p in ctparse_gen(t, ts, timeout=0):
        print(repr(t), repr(p.score), p.resolution, p.production)
X = [["a", "b", "c", "d"], ["b", "c", "e", "f", "g"], ["a", "g", "h"], ["c", "d", "e", "i", "j", "k"], ["k", "a"]]
y = [True, False, True, False, True]
m = train_naive_bayes(X, y)
for q in X + [["a", "b", "c", "d", "e", "f", "g", "h", "i", "j", "k"], ["z"]]:
    print(q, [repr(v) for v in m.predict_log_proba([q])[0]])
'''
    outs = {}
    for seed in ("0", "1", "2", "3", "4", "12345"):
        env = dict(os.environ, PYTHONHASHSEED=seed, PYTHONDONTWRITEBYTECODE="1")
        p = subprocess.run([sys.executable, "-W", "ignore", "-c", prog], env=env, capture_output=True, text=True, timeout=600)
        outs[seed] = p.stdout if p.returncode == 0 else "CRASH " + p.stderr[-500:]
    ref = outs["0"]
    diff = None
    for seed, o in outs.items():
        if o != ref:
            la, lb = ref.splitlines(), o.splitlines()
            for i in range(max(len(la), len(lb))):
                x, y2 = (la[i] if i < len(la) else None), (lb[i] if i < len(lb) else None)
                if x != y2:
                    diff = {"PYTHONHASHSEED": ["0", seed], "first_differing_line": [x, y2]}
                    break
            break
    out = {"func": rp["func"], "clause": rp["clause"], "confirmed": diff is not None}
    if diff:
        out["failing_input"] = diff
    return out


def h_ctparse_gen(rp):
    """what reaches _ctparse when ctparse_gen is called with distinct option values"""
    import importlib
    import inspect
    from datetime import datetime
    C = importlib.import_module("ctparse.ctparse")
    out = {"func": rp["func"], "clause": rp["clause"]}
    seen = {}
    orig = C._ctparse

    def fake(*a, **k):
        seen["b"] = dict(inspect.signature(orig).bind(*a, **k).arguments)
        return iter(())
    C._ctparse = fake
    if rp["clause"].startswith("text-reaches-the-search-normalised"):
        raw = "  lunch ,, (with) bob \u2013 #work\u20135pm ; "
        try:
            list(C.ctparse_gen(raw, datetime(2020, 2, 29, 23, 59)))
        except Exception as e:
            out["real_exception"] = repr(e)
        finally:
            C._ctparse = orig
        got = seen.get("b", {}).get("txt")
        want = C._preprocess_string(raw)
        out["confirmed"] = got != want
        if got != want:
            out["failing_input"] = {"text": raw, "reaches_the_search_as": got, "normalised_text": want}
        return out
    if rp["clause"].startswith("reference-time"):
        # the omitted reference time must be the local wall clock at call time: compare under a zone far from UTC
        import os
        import time as _time
        old_tz = os.environ.get("TZ")
        os.environ["TZ"] = "Asia/Tokyo"
        _time.tzset()
        try:
            list(C.ctparse_gen("some text"))
            now = datetime.now()
        except Exception as e:
            out["real_exception"] = repr(e)
            now = datetime.now()
        finally:
            C._ctparse = orig
            if old_tz is None:
                os.environ.pop("TZ", None)
            else:
                os.environ["TZ"] = old_tz
            _time.tzset()
        ts = seen.get("b", {}).get("ts")
        off = None if not isinstance(ts, datetime) else abs((now - ts).total_seconds())
        out["confirmed"] = off is None or off > 120
        if out["confirmed"]:
            out["failing_input"] = {"call": "ctparse_gen(txt) with TZ=Asia/Tokyo", "reference_time_used": repr(ts), "local_wall_clock": repr(now)}
        return out
    if rp["clause"].startswith("documented-defaults"):
        try:
            list(C.ctparse_gen("some text"))
        except Exception as e:
            out["real_exception"] = repr(e)
        finally:
            C._ctparse = orig
        b = seen.get("b", {})
        doc = {"timeout": 1.0, "relative_match_len": 1.0, "max_stack_depth": 10}
        wrong = {k: repr(b.get(k)) for k, v in doc.items() if b.get(k) != v or type(b.get(k)) is not type(v)}
        if b.get("scorer") is not C._DEFAULT_SCORER:
            wrong["scorer"] = repr(b.get("scorer"))
        out["confirmed"] = bool(wrong)
        if wrong:
            out["failing_input"] = {"call": "ctparse_gen(txt)", "wrong_at_the_search": wrong, "documented": doc}
        return out
    sc = object()
    ts = datetime(2020, 2, 29, 23, 59)
    try:
        list(C.ctparse_gen("some text", ts, timeout=7.5, relative_match_len=0.25, max_stack_depth=3, scorer=sc, latent_time=False))
    except Exception as e:
        out["real_exception"] = repr(e)
    finally:
        C._ctparse = orig
    b = seen.get("b", {})
    want = {"ts": ts, "timeout": 7.5, "relative_match_len": 0.25, "max_stack_depth": 3, "scorer": sc}
    wrong = {k: repr(b.get(k)) for k, v in want.items() if b.get(k) is not v and b.get(k) != v}
    out["reached_the_search"] = {k: repr(v) for k, v in b.items() if k != "txt"}
    out["confirmed"] = bool(wrong) and rp["clause"] != "no-exceptional-exit"
    if wrong:
        out["failing_input"] = {"call": "ctparse_gen(txt, ts, timeout=7.5, relative_match_len=0.25, max_stack_depth=3, scorer=S)", "wrong_at_the_search": wrong}
    return out


def h_dataset(rp):
    """the real make_partial_rule_dataset, materialised as the training script does: one sample per trace prefix"""
    import importlib
    from ctparse.time.corpus import corpus
    from ctparse.scorer import DummyScorer
    K = importlib.import_module("ctparse.corpus")
    out = {"func": rp["func"], "clause": rp["clause"], "confirmed": False}
    if rp["clause"] in ("frame", "no-exceptional-exit"):
        return out
    C = importlib.import_module("ctparse.ctparse")
    from datetime import datetime
    ents = []
    for target, ts, tests in corpus[:3]:
        for test in tests[:4]:
            ents.append(K.TimeParseEntry(text=test, ts=datetime.strptime(ts, "%Y-%m-%dT%H:%M"), gold=K.parse_nb_string(target)))
    entries = list(K.make_partial_rule_dataset(ents, scorer=DummyScorer(), timeout=0, max_stack_depth=0, progress=False))
    # reference: every candidate of every entry, one sample per prefix of its trace, labelled by value equality with the gold
    want = []
    for e in ents:
        for p in C.ctparse_gen(e.text, e.ts, scorer=DummyScorer(), timeout=0, max_stack_depth=0, latent_time=False):
            if p is None:
                continue
            for i in range(1, len(p.production) + 1):
                want.append(([str(x) for x in p.production[:i]], p.resolution == e.gold))
    got = [(list(x), bool(y)) for x, y in entries]
    if got != want:
        k = next((i for i, (a, b) in enumerate(zip(got, want)) if a != b), min(len(got), len(want)))
        out["confirmed"] = True
        out["failing_input"] = {"entries": "first 4 texts of the first 3 corpus entries", "first_differing_sample": k, "real": repr(got[k])[:300] if k < len(got) else None,
                                "expected": repr(want[k])[:300] if k < len(want) else None, "n_real": len(got), "n_expected": len(want)}
    return out


def h_search_step(rp):
    """a clause about one step of the search (production step, initial filter, dedup) failed on the fragment: does the
    real search as a whole deviate from the naive reference closure (sound / complete / traces / termination)?"""
    from replay import bounded_derive
    r = bounded_derive.run("quick", 1)
    out = {"func": rp["func"], "clause": rp["clause"], "reference_search": {k: v for k, v in r.items() if k != "bad"}, "confirmed": bool(r["bad"])}
    if r["bad"]:
        out["failing_input"] = r["bad"][:3]
    return out


def replay(rp):
    func = rp["func"]
    if func.startswith(("ctparse._ctparse.production-step", "ctparse._ctparse.initial-filter")) and rp.get("clause") != "deadline-check-before-any-work":
        return h_search_step(rp)
    if rp.get("clause") == "writes-no-module-level-state":
        return h_frame_history(rp)
    if rp.get("clause") == "iterates-no-set-in-hash-order":
        return h_hashseed(rp)
    for prefix, h in HANDLERS:
        if func.startswith(prefix):
            return h(rp)
    return {"confirmed": False, "note": "no replay handler for %s" % func}


def _common(rp, args, call, clauses_fn, frame_args):
    from replay.harness import snapshot
    out = {"func": rp["func"], "clause": rp["clause"]}
    before = snapshot(frame_args)
    try:
        res = call()
        exc = None
    except Exception as e:
        res, exc = None, e
        out["real_exception"] = "%s: %s" % (type(e).__name__, e)
    after = snapshot(frame_args)
    out["real_result"] = repr(res)
    clause = rp["clause"]
    if clause == "no-exceptional-exit":
        out["confirmed"] = exc is not None
        return out
    if exc is not None:
        out["confirmed"] = False
        out["note"] = "the real function raised instead of returning"
        return out
    if clause == "frame":
        out["confirmed"] = before != after
        return out
    for cname, props, val in clauses_fn(res):
        if cname == clause:
            out["clause_value"] = bool(val)
            out["confirmed"] = not bool(val)
            return out
    out["note"] = "clause not applicable to the real result"
    return out


def _env():
    import ctparse.types as T
    from contracts.generic import Env
    return Env(T.pod_hours, {})


def h_postprocess(rp):
    from replay.harness import build, view
    from contracts import func_specs as FS
    from ctparse.time.postprocess_latent import apply_postprocessing_rules
    notes = []
    ts, art = [build(a, notes) for a in rp["args"]]
    return _common(rp, [ts, art], lambda: apply_postprocessing_rules(ts, art),
                   lambda res: FS.postprocess_clauses(_env(), ts, view(art), view(res)), [art])


def h_accessor(rp):
    from replay.harness import build, view
    from contracts import func_specs as FS
    notes = []
    (o,) = [build(a, notes) for a in rp["args"]]
    cls, attr = rp["func"].split(".")[1:3]
    cl = {("Time", "start"): FS.time_start_clauses, ("Time", "end"): FS.time_end_clauses,
          ("Time", "dt"): FS.time_dt_clauses, ("Interval", "start"): FS.interval_start_clauses,
          ("Interval", "end"): FS.interval_end_clauses}[(cls, attr)]
    return _common(rp, [o], lambda: getattr(o, attr), lambda res: cl(_env(), view(o), view(res)), [o])


def h_wrapper(rp):
    from replay.harness import build, view
    from contracts import func_specs as FS
    import ctparse.rule as R
    notes = []
    ts = build(rp["args"][0], notes)
    args = [build(a, notes) for a in rp["args"][1]]
    fdesc = rp["args"][2]
    fres = None
    if fdesc is not None:
        lab = fdesc.get("label", "")
        idx = [i for i, a in enumerate(rp["args"][1]) if a.get("label") == lab]
        fres = args[idx[0]] if idx else build(fdesc, notes)
    w = next(iter(R.rules.values()))[0]
    seen = {}

    def f(ts_, *aa):
        seen["args"] = (ts_,) + aa
        return fres
    cell = pytypes.CellType(f)
    wrapper = pytypes.FunctionType(w.__code__, w.__globals__, "wrapper", w.__defaults__, (cell,))

    def clauses(res):
        out = FS.wrapper_clauses(_env(), ts, [view(a) for a in args], view(fres), view(res))
        fwd = seen.get("args")
        out.append(("arguments-forwarded", [], fwd is not None and len(fwd) == len(args) + 1 and fwd[0] is ts
                    and all(x is y for x, y in zip(fwd[1:], args))))
        return out
    return _common(rp, args, lambda: wrapper(ts, *args), clauses, args)


def h_eq(rp):
    from replay.harness import build, view
    from contracts import func_specs as FS
    notes = []
    a, b = [build(x, notes) for x in rp["args"]]
    return _common(rp, [a, b], lambda: (a == b, hash(a) == hash(b)),
                   lambda res: FS.eq_clauses(_env(), view(a), view(b), res[0], res[1]), [a, b])


def h_roundtrip(rp):
    from replay.harness import build, view
    from contracts import func_specs as FS
    from ctparse.corpus import parse_nb_string
    import ctparse.types as T
    notes = []
    (x,) = [build(v, notes) for v in rp["args"]]

    def call():
        r = parse_nb_string(x.nb_str())
        return (r, r == x)

    def clauses(res):
        shape = None
        if isinstance(x, T.Time):
            s = str(x)
            shape = s[0] in "0123456789X" and s[-1] == ")" and " - " not in s
        return FS.roundtrip_clauses(_env(), view(x), view(res[0]), res[1], shape)
    out = _common(rp, [x], call, clauses, [x])
    if not out.get("confirmed"):
        # the solver's value did not show it: sweep the real text form over a grid of values of every kind
        import itertools
        vals = []
        for mo, d, h, mi in itertools.product((None, 1, 2, 9, 10, 11, 12), (None, 1, 9, 10, 28, 31), (None, 0, 9, 12, 23), (None, 0, 5, 59)):
            if (mo is None) != (d is None) and mo is None:
                continue
            vals.append(T.Time(year=2020 if mo else None, month=mo, day=d, hour=h, minute=mi if h is not None else None))
        for dow in range(7):
            vals.append(T.Time(DOW=dow))
        for pod in list(T.pod_hours)[:12]:
            vals.append(T.Time(POD=pod))
        ivs = [T.Interval(t_from=a, t_to=b) for a, b in ((vals[5], vals[40]), (vals[17], None), (None, vals[23]), (vals[-1], vals[-2]))]
        durs = [T.Duration(n, u) for n in (0, 1, 30, 9999) for u in T.DurationUnit]
        for v in vals + ivs + durs:
            try:
                r = parse_nb_string(v.nb_str())
                ok = r == v and type(r) is type(v)
                why = "parses to %r" % (r,)
            except Exception as e:
                ok, why = False, "raises %r" % e
            if not ok:
                out["confirmed"] = True
                out["failing_input"] = {"value": repr(v), "text_form": v.nb_str(), "real": why}
                break
    return out


def h_reglan(rp):
    import ctparse.rule as R
    a = rp["args"]
    rr = R._regex[a["pid"]]
    w = a["word"]
    m = rr.fullmatch(w)
    out = {"func": rp["func"], "clause": rp["clause"], "word": w, "fullmatch": m is not None}
    if m is None:
        # the RegLan model drops look-arounds; try the word in a neutral context
        for ctx in (w + "x", "x " + w, w + " x"):
            for mm in rr.finditer(ctx, overlapped=True):
                if mm.group("R%d" % a["pid"]) == w:
                    m = mm
                    out["context"] = ctx
                    break
            if m:
                break
    if m is None:
        out["confirmed"] = False
        return out
    c = rp["clause"]
    out["confirmed"] = {"not-nullable": w == "", "no-leading-blank": w[:1].isspace(),
                        "no-trailing-blank": w[-1:].isspace()}.get(c, False)
    if out["confirmed"] and c == "no-trailing-blank":
        # user-visible effect: the span of the resolution includes the blank
        try:
            from ctparse.ctparse import _match_regex
            ms = [x for x in _match_regex(w + "zzz", {a["pid"]: rr}) if x.mend - x.mstart == len(w)]
            out["span_in_text"] = [(x.mstart, x.mend, repr((w + "zzz")[x.mstart:x.mend])) for x in ms][:2]
        except Exception as e:
            out["span_note"] = str(e)
    return out


NOMATCH_POOL = ["a-b c", "a  b", "hello   world", "a #x b", "x,y;z", "well-known fact #tag_1", "foo \u2013 bar",
                "#_todo buy milk", "(call) mum", "one #a two #b-c three", "gym #Work", "x #a #b #c #d y", "#Home #WORK mixed Case",
                "row boat", "orrow", "tom", "mor row tomo", "very very good", "la la la land"]


def h_ctparse(rp):
    """ctparse(): the real function with ctparse_gen replaced by a recording stub that yields the
    model's stream"""
    import importlib
    from datetime import datetime
    C = importlib.import_module("ctparse.ctparse")
    P, stream = rp["args"][0], rp["args"][1]
    clause = rp["clause"]
    out = {"func": rp["func"], "clause": clause}
    if clause in ("omitted-reference-time-is-read-at-call-time", "documented-defaults"):
        import inspect
        sig = inspect.signature(C.ctparse)
        d = {k: p.default for k, p in sig.parameters.items()}
        out["signature_defaults"] = {k: repr(v) for k, v in d.items()}
        seen = {}
        orig = C.ctparse_gen

        def fake(*a, **k):
            seen["b"] = inspect.signature(orig).bind(*a, **k)
            return iter(())
        C.ctparse_gen = fake
        try:
            C.ctparse("some text")
        finally:
            C.ctparse_gen = orig
        got = dict(seen["b"].arguments)
        out["reached_the_stream"] = {k: repr(v) for k, v in got.items()}
        if clause.startswith("omitted"):
            out["confirmed"] = got.get("ts") is not None      # evaluated once at import, not at call time
        else:
            doc = {"timeout": 1.0, "relative_match_len": 1.0, "max_stack_depth": 10, "scorer": None, "latent_time": True}
            out["confirmed"] = any(got.get(k) != v for k, v in doc.items())
        return out
    if clause == "no-match-subject-and-labels-as-on-the-match-path":
        ts = datetime(2018, 3, 7, 12, 43)
        diffs = []
        for t in NOMATCH_POOL:
            a = C.ctparse(t, ts=ts, timeout=0)
            b = C.ctparse(t + " tomorrow", ts=ts, timeout=0)
            if a.resolution is None and b.resolution is not None and (a.subject != b.subject or a.labels != b.labels):
                diffs.append({"text": t, "no_match": [a.subject, a.labels], "with_time_expression": [b.subject, b.labels]})
        out["differences"] = diffs[:5]
        out["confirmed"] = bool(diffs)
        return out

    def real(v):
        if v is None:
            return None
        if isinstance(v, dict) and v.get("kind") == "CTParse":
            a = v["attrs"]
            r = a.get("resolution")
            if isinstance(r, dict) and r.get("kind") == "Time":
                import ctparse.types as T
                res = T.Time(hour=(r.get("attrs") or {}).get("hour"))
                res.mstart, res.mend = r.get("mstart") or 0, r.get("mend") or 1
            else:
                res = "res:" + v.get("label", "")
            return C.CTParse(res, ("r",), a.get("score"), "subj", ["l"])
        return v
    objs = [real(x) for x in (stream or [])]
    seen = {}

    def fake_gen(*a, **k):
        seen["args"], seen["kwargs"] = a, k
        return iter(objs)
    ts = None if P.get("ts") is None else datetime(2020, 2, 29, 23, 59, 59)
    scorer = None if P.get("scorer") is None else object()
    kw = dict(timeout=P.get("timeout"), relative_match_len=P.get("relative_match_len"),
              max_stack_depth=P.get("max_stack_depth"), scorer=scorer, latent_time=P.get("latent_time"))
    debug = ",debug" in rp["func"]
    orig = C.ctparse_gen
    C.ctparse_gen = fake_gen
    try:
        try:
            res = C.ctparse("some text", ts, debug=debug, **kw)
            exc = None
        except Exception as e:
            res, exc = None, e
            out["real_exception"] = "%s: %s" % (type(e).__name__, e)
    finally:
        C.ctparse_gen = orig
    out["real_result"] = repr(res)[:300]
    if clause == "no-exceptional-exit":
        out["confirmed"] = exc is not None
        return out
    if exc is not None:
        out["confirmed"] = False
        return out
    if clause == "arguments-forwarded-to-the-stream":
        import inspect
        b = inspect.signature(orig).bind(*seen.get("args", ()), **seen.get("kwargs", {}))
        b.apply_defaults()
        want = dict(kw, txt="some text", ts=ts)
        bad = {k: [repr(b.arguments.get(k)), repr(v)] for k, v in want.items() if not (b.arguments.get(k) is v or b.arguments.get(k) == v)}
        out["not_forwarded"] = bad
        out["confirmed"] = bool(bad)
        return out
    if clause == "result-is-a-stream-element":
        out["confirmed"] = not any(res is o for o in objs)
        return out
    if clause == "result-has-maximal-score":
        out["confirmed"] = not all(o.score <= res.score for o in objs)
        return out
    if clause == "empty-stream-gives-empty-resolution":
        out["confirmed"] = not (isinstance(res, C.CTParse) and res.resolution is None and res.production is None and res.score is None)
        return out
    if clause == "subject-is-str-labels-is-list":
        out["confirmed"] = not (isinstance(res.subject, str) and isinstance(res.labels, list) and all(isinstance(x, str) for x in res.labels))
        return out
    if clause == "debug-returns-the-stream":
        out["confirmed"] = list(res) != objs
        return out
    out["note"] = "no native evaluation for this clause"
    return out


def h_labels(rp):
    import importlib
    import os
    import subprocess
    import sys
    from datetime import datetime
    C = importlib.import_module("ctparse.ctparse")
    a = rp["args"]
    out = {"func": rp["func"], "clause": rp["clause"]}
    if a.get("kind") == "hashtag":
        w = a["word"]
        text = "foo " + w + " bar"
        r = C.ctparse(text, ts=datetime(2018, 3, 7, 12, 43), timeout=0)
        out["text"], out["labels"], out["subject"] = text, r.labels, r.subject
        out["confirmed"] = not (r.labels == [w[1:]] and r.subject == "foo bar")
        return out
    if a.get("kind") == "label-order":
        text = "#zeta #alpha #mid #beta #omega #kappa"
        want = ["zeta", "alpha", "mid", "beta", "omega", "kappa"]
        seen = []
        for seed in ("0", "1", "2", "3", "4", "5"):
            env = dict(os.environ, PYTHONHASHSEED=seed)
            p = subprocess.run([sys.executable, "-W", "ignore", "-c",
                                "import importlib,json;C=importlib.import_module('ctparse.ctparse');print(json.dumps(C._get_labels(%r)))" % text],
                               env=env, capture_output=True, text=True)
            seen.append(p.stdout.strip())
        out["label_lists_under_6_hash_seeds"] = sorted(set(seen))
        import json as _j
        out["confirmed"] = any(_j.loads(x) != want for x in seen if x)
        return out
    out["confirmed"] = False
    return out


def _virtual_clock_run(text, expire_after, scorer_mode="nb", timeout=1000.0, count=False, max_stack_depth=0):
    """run ctparse_gen under a virtual clock: perf_counter never advances until it has been read
    `expire_after` times (None: never), then jumps past the deadline"""
    import importlib
    from datetime import datetime
    C = importlib.import_module("ctparse.ctparse")
    T = importlib.import_module("ctparse.timers")
    PP = importlib.import_module("ctparse.partial_parse")
    from ctparse.scorer import Scorer
    reads, work, nseq = [], [0], [0]

    import sys as _sys

    def fake():
        # only the reads made by the deadline closure (a function nested in timers.timeout) are deadline checks; the
        # stop-watch reads of timers.timeit are not
        co = _sys._getframe(1).f_code
        if not getattr(co, "co_qualname", co.co_name).startswith("timeout."):
            return 0.0
        reads.append(work[0])
        if expire_after is not None and len(reads) > expire_after:
            return 1e9
        return 0.0
    base = C._DEFAULT_SCORER

    class S(Scorer):
        def score(self, *a):
            work[0] += 1
            return base.score(*a)

        def score_final(self, *a):
            work[0] += 1
            return base.score_final(*a)
    oa, of = PP.PartialParse.apply_rule, PP.PartialParse.from_regex_matches

    def ar(self, *a, **k):
        work[0] += 1
        return oa(self, *a, **k)

    def fr(cls, *a, **k):
        work[0] += 1
        nseq[0] += 1
        return of.__func__(cls, *a, **k)
    orig = T.perf_counter
    T.perf_counter = fake
    PP.PartialParse.apply_rule = ar
    PP.PartialParse.from_regex_matches = classmethod(fr)
    try:
        out = list(C.ctparse_gen(text, datetime(2018, 3, 7, 12, 43), timeout=timeout, max_stack_depth=max_stack_depth,
                                 scorer=S(), latent_time=False))
        exc = None
    except Exception as e:
        out, exc = [], e
    finally:
        T.perf_counter = orig
        PP.PartialParse.apply_rule = oa
        PP.PartialParse.from_regex_matches = of
    pts = reads + [work[0]]
    gaps = [b - a for a, b in zip(pts, pts[1:])]
    return {"out": out, "exc": exc, "maxgap": max(gaps) if gaps else 0, "nseq": nseq[0], "reads": len(reads)}


def h_timer(rp):
    """drive the real deadline closure with a virtual clock: every check reads the clock exactly once, raises
    exactly when the deadline has passed, also on the 2nd, 3rd, ... 300th check"""
    import importlib
    T = importlib.import_module("ctparse.timers")
    out = {"func": rp["func"], "clause": rp["clause"]}
    now, reads = [0.0], [0]

    def fake():
        reads[0] += 1
        return now[0]
    orig = T.perf_counter
    T.perf_counter = fake
    bad = None
    try:
        for expire_at in (None, 1, 2, 3, 15, 16, 17, 100, 255):
            now[0], reads[0] = 0.0, 0
            clo = T.timeout(10.0)
            for k in range(1, 301):
                if expire_at is not None and k >= expire_at:
                    now[0] = 11.0
                before = reads[0]
                try:
                    clo()
                    raised = False
                except T.CTParseTimeoutError:
                    raised = True
                should = expire_at is not None and k >= expire_at
                if reads[0] - before != 1 or raised != should:
                    bad = {"timeout": 10.0, "check_number": k, "deadline_passes_before_check": expire_at,
                           "clock_reads_in_this_check": reads[0] - before, "raised": raised, "should_raise": should}
                    break
                if raised:
                    break
            if bad:
                break
    finally:
        T.perf_counter = orig
    out["confirmed"] = bad is not None
    if bad:
        out["failing_input"] = bad
    return out


def h_deadline(rp):
    out = {"func": rp["func"], "clause": rp["clause"]}
    a = rp.get("args")
    kind = a.get("kind") if isinstance(a, dict) else None
    if kind == "work-growth":
        rows = []
        for n in (3, 4, 5):
            r = _virtual_clock_run(" ".join(["1"] * n), None)
            rows.append({"tokens": n, "candidate_sequences": r["nseq"], "max_work_between_two_checks": r["maxgap"]})
        out["virtual_clock"] = rows
        out["confirmed"] = rows[-1]["max_work_between_two_checks"] * 2 >= rows[-1]["candidate_sequences"]
        return out
    if kind == "prefix":
        bad = []
        for text in ("tomorrow 8pm", "monday or tuesday 9-5", "1 1 1"):
            full = _virtual_clock_run(text, None, timeout=0)
            ref = [(repr(p.resolution), p.production, p.score) if p is not None else None for p in full["out"]]
            nreads = _virtual_clock_run(text, None)["reads"]
            for k in range(1, min(nreads, 60) + 1):
                r = _virtual_clock_run(text, k)
                got = [(repr(p.resolution), p.production, p.score) if p is not None else None for p in r["out"]]
                if r["exc"] is not None:
                    bad.append({"text": text, "deadline_after_reads": k, "raises": repr(r["exc"])})
                elif got != ref[:len(got)]:
                    bad.append({"text": text, "deadline_after_reads": k, "not_a_prefix": repr(got[-1])[:200]})
                if len(bad) >= 3:
                    break
            if len(bad) >= 3:
                break
        out["violations"] = bad
        out["confirmed"] = bool(bad)
        return out
    if rp["clause"] == "no-exceptional-exit":
        # a step of the search may raise: look for a text on which the real search does
        import importlib
        from datetime import datetime
        C = importlib.import_module("ctparse.ctparse")
        pool = EMISSION_POOL + ["", "hello world", "#tag only", "call mom tomorrow #family", "8", "am", "12.12.", "in 2 weeks"]
        for text in pool:
            for depth in (10, 0, 2):
                try:
                    list(C.ctparse_gen(text, datetime(2018, 3, 7, 12, 43), timeout=0, max_stack_depth=depth))
                except Exception as e:
                    out["failing_input"] = {"text": text, "max_stack_depth": depth, "raises": "%s: %s" % (type(e).__name__, e)}
                    out["confirmed"] = True
                    return out
    out["confirmed"] = False
    return out


EMISSION_POOL = ["May 5th 2021 5:30pm - 6:45pm", "monday or tuesday 9-5", "tomorrow 8pm", "1.2.2020 - 3.2.2020 for 2 days",
                 "heute 17 uhr bis morgen 9 uhr", "3 4 5", "next friday 12:30 - 14:00"]


def h_emission(rp):
    """stream real candidates and look for a value that is emitted again without a strictly higher score"""
    import importlib
    from datetime import datetime
    C = importlib.import_module("ctparse.ctparse")
    out = {"func": rp["func"], "clause": rp["clause"]}
    bad = []
    for text in EMISSION_POOL:
        best = {}
        for p in C.ctparse_gen(text, datetime(2018, 3, 7, 12, 43), timeout=0, max_stack_depth=0, latent_time=False):
            k = p.resolution
            if k in best and not (p.score > best[k]):
                bad.append({"text": text, "value": repr(k), "score": p.score, "already_emitted_with": best[k]})
                break
            best[k] = max(p.score, best.get(k, p.score))
        if len(bad) >= 3:
            break
    out["re_emitted_without_better_score"] = bad
    out["confirmed"] = bool(bad)
    return out


def h_match_rule(rp):
    """search the smallest predicate matrix on which the real _match_rule deviates from
    'exactly the windows where every predicate holds, in ascending order'"""
    import importlib
    import itertools
    C = importlib.import_module("ctparse.ctparse")
    out = {"func": rp["func"], "clause": rp["clause"]}
    for s_len in range(0, 5):
        for r_len in range(0, 4):
            for bits in itertools.product((False, True), repeat=s_len * r_len):
                T = [[bits[k * s_len + j] for j in range(s_len)] for k in range(r_len)]
                seq = list(range(s_len))
                rule = [(lambda x, k=k: T[k][x]) for k in range(r_len)]
                want = [(a, a + r_len) for a in range(0, s_len - r_len + 1) if all(T[k][a + k] for k in range(r_len))] \
                    if s_len and r_len else []
                try:
                    got = list(C._match_rule(seq, rule))
                except Exception as e:
                    got = "raises %r" % e
                if got != want:
                    out.update({"confirmed": True, "seq_len": s_len, "rule_len": r_len,
                                "predicate_matrix_rule_x_seq": T, "real_result": got, "expected": want})
                    return out
    out["confirmed"] = False
    out["searched"] = "all predicate matrices with len(seq) <= 4, len(rule) <= 3"
    return out


def _close(a, b, tol=1e-9):
    import math
    return abs(a - b) <= tol * max(1.0, abs(a), abs(b)) or (math.isnan(a) and math.isnan(b))


def module_state_changes():
    """does a parse write module-level state?  snapshot every container / object held in a module
    global of the package, run three parses, compare"""
    import importlib
    import sys
    from datetime import datetime
    C = importlib.import_module("ctparse.ctparse")

    def snap():
        out = {}
        for mn, mod in list(sys.modules.items()):
            if not mn.startswith("ctparse") or mod is None:
                continue
            for k, v in list(vars(mod).items()):
                if k.startswith("__") or callable(v) or isinstance(v, (str, int, float, tuple, type(None), type(sys))):
                    continue
                try:
                    shallow = None
                    if hasattr(v, "__dict__"):
                        shallow = repr(sorted((a, x if isinstance(x, (int, float, str, bool, type(None))) else type(x).__name__)
                                              for a, x in vars(v).items()))[:2000]
                    out[mn + "." + k] = (len(v) if hasattr(v, "__len__") else None,
                                         repr(v)[:2000] if isinstance(v, (dict, list, set)) else None, shallow)
                except Exception:
                    out[mn + "." + k] = ("?",)
        return out
    ts = datetime(2018, 3, 7, 12, 43)
    C.ctparse("tomorrow 8pm", ts=ts, timeout=0)
    before = snap()
    for t in ("on on monday", "tomorrow tomorrow", "3 4 5", "at monday"):
        C.ctparse(t, ts=ts, timeout=0)
    after = snap()
    return sorted(k for k in after if before.get(k) != after[k])


def h_frame_history(rp):
    ch = module_state_changes()
    return {"func": rp["func"], "clause": rp["clause"], "module_level_state_changed_by_parsing": ch, "confirmed": bool(ch)}


def h_loader(rp):
    import importlib
    import os
    L = importlib.import_module("ctparse.loader")
    from ctparse.scorer import Scorer
    present = "present" in rp["func"]
    out = {"func": rp["func"], "clause": rp["clause"]}
    orig = os.path.exists
    L.os.path.exists = (lambda p: orig(p)) if present else (lambda p: False)
    try:
        try:
            r = L.load_default_scorer()
            out["real_result"] = repr(r)
            ok = isinstance(r, Scorer)
            if ok:
                # and it must be usable: a parse under it
                C = importlib.import_module("ctparse.ctparse")
                from datetime import datetime
                C.ctparse("tomorrow 8pm", ts=datetime(2018, 3, 7), timeout=0, scorer=r)
            out["confirmed"] = not ok
        except Exception as e:
            out["real_exception"] = repr(e)
            out["confirmed"] = True
    finally:
        L.os.path.exists = orig
    return out


def h_nb(rp):
    if rp["clause"] == "frame":
        return h_frame_history(rp)
    import importlib
    import math
    from spec import nb as SPEC
    E = importlib.import_module("ctparse.nb_estimator")
    out = {"func": rp["func"], "clause": rp["clause"]}
    f = rp["func"]
    a = rp["args"]
    try:
        if "predict_log_probability" in f:
            m, docs = a
            est = E.MultinomialNaiveBayes(1.0)
            est.class_prior = tuple(m["attrs"]["class_prior"])
            est.log_likelihood = {k: list(v) for k, v in m["attrs"]["log_likelihood"].items()}
            X = [{int(k): v for k, v in d.items()} for d in docs]
            got = est.predict_log_probability(X)
            want = []
            for d in X:
                jn = est.class_prior[0] + sum(est.log_likelihood["negative_class"][i] * c for i, c in d.items())
                jp = est.class_prior[1] + sum(est.log_likelihood["positive_class"][i] * c for i, c in d.items())
                want.append(SPEC.posterior((jn, jp)))
            out["real"], out["textbook"] = [list(x) for x in got], [list(x) for x in want]
            out["confirmed"] = len(got) != len(want) or any(not _close(g[i], w[i]) for g, w in zip(got, want) for i in (0, 1))
            if not out["confirmed"]:
                # long traces give joint log-probabilities far below the range of exp(): normalisation must still work
                for joint in ((-800.0, -801.0), (-2000.0, -2000.5), (-745.2, -10.0), (0.0, 0.0), (-1e4, -1e4 - 3)):
                    est.class_prior = joint
                    est.log_likelihood = {"negative_class": [0.0], "positive_class": [0.0]}
                    try:
                        g = est.predict_log_probability([{}])[0]
                        w = SPEC.posterior(joint)
                        bad = any(not _close(g[i], w[i]) for i in (0, 1)) or any(math.isnan(v) or math.isinf(v) for v in g)
                        why = list(g)
                    except Exception as e:
                        bad, why = True, "raises %r" % e
                    if bad:
                        out["confirmed"] = True
                        out["failing_input"] = {"joint_log_probabilities": list(joint), "real": why, "textbook": list(SPEC.posterior(joint))}
                        break
            return out
        if "_construct_log_class_prior" in f:
            ys = a[0]
            got = E.MultinomialNaiveBayes._construct_log_class_prior(ys)
            nneg = sum(1 for y in ys if y == -1)
            want = (math.log(nneg / len(ys)), math.log((len(ys) - nneg) / len(ys)))
            out["real"], out["textbook"], out["y"] = list(got), list(want), ys
            out["confirmed"] = any(not _close(g, w) for g, w in zip(got, want))
            return out
        if "_construct_log_likelihood" in f:
            X, ys, alpha = a
            X = [{int(k): v for k, v in d.items()} for d in X]
            got = E.MultinomialNaiveBayes._construct_log_likelihood(X, ys, alpha)
            V = max(X[0]) + 1
            want = {}
            for cname, cls in (("positive_class", 1), ("negative_class", -1)):
                cnt = [alpha + sum(d.get(i, 0) for d, y in zip(X, ys) if y == cls) for i in range(V)]
                want[cname] = [math.log(c) - math.log(sum(cnt)) for c in cnt]
            out["real"], out["textbook"] = got, want
            out["confirmed"] = any(not _close(g, w) for k in want for g, w in zip(got[k], want[k]))
            return out
    except Exception as e:
        out["real_exception"] = repr(e)
        out["confirmed"] = rp["clause"] == "no-exceptional-exit"
        return out
    out["confirmed"] = False
    return out


def h_partial_parse(rp):
    if rp["clause"] == "frame":
        return h_frame_history(rp)
    import importlib
    PP = importlib.import_module("ctparse.partial_parse")
    import ctparse.types as T
    out = {"func": rp["func"], "clause": rp["clause"]}
    a = rp["args"]
    if "__lt__" in rp["func"]:
        objs = []
        for d in a[:2]:
            o = PP.PartialParse.__new__(PP.PartialParse)
            o.max_covered_chars = d["attrs"]["max_covered_chars"]
            o.score = d["attrs"]["score"]
            objs.append(o)
        x, y = objs
        got = x < y
        want = x.max_covered_chars < y.max_covered_chars or (x.max_covered_chars == y.max_covered_chars and x.score < y.score)
        out.update({"a": [x.max_covered_chars, x.score], "b": [y.max_covered_chars, y.score], "real": got, "spec": want,
                    "confirmed": got != want})
        return out
    # apply_rule[n=..,window=a:b,...]
    import re
    m = re.search(r"n=(\d+),window=(\d+):(\d+),(\w+)", rp["func"])
    n, lo, hi, mode = int(m.group(1)), int(m.group(2)), int(m.group(3)), m.group(4)
    items = []
    for i in range(n):
        t = T.Time(hour=i)
        t.mstart, t.mend = 10 * i, 10 * i + 5
        items.append(t)
    pp = PP.PartialParse(tuple(items), (100, "ruleA"))
    pp.applicable_rules = {"marker": 1}
    seen = {}
    res = None
    if mode != "None":
        res = T.Time(hour=23)
        res.mstart, res.mend = 10 * lo, 10 * (hi - 1) + 5
    ts = object()

    def rule(*args):
        seen["args"] = args
        return res
    try:
        r = pp.apply_rule(ts, rule, "ruleB", (lo, hi))
    except Exception as e:
        out["real_exception"] = repr(e)
        out["confirmed"] = rp["clause"] == "no-exceptional-exit"
        return out
    want = tuple(items[:lo]) + (res,) + tuple(items[hi:])
    checks = {
        "rule-gets-the-reference-time-and-exactly-the-window": seen.get("args") is not None and seen["args"][0] is ts and list(seen["args"][1:]) == items[lo:hi],
        "none-iff-production-none": (r is None) == (res is None),
    }
    if r is not None and res is not None:
        checks.update({
            "result-replaces-the-window-by-the-value": len(r.prod) == len(want) and all(x is y for x, y in zip(r.prod, want)),
            "trace-extended-by-the-rule-name": r.rules == (100, "ruleA", "ruleB"),
            "applicable-rules-inherited": r.applicable_rules is pp.applicable_rules,
            "covered-length-of-the-new-production": r.max_covered_chars == want[-1].mend - want[0].mstart,
            "receiver-unchanged": pp.prod == tuple(items) and pp.rules == (100, "ruleA"),
        })
    out["checks"] = checks
    out["confirmed"] = checks.get(rp["clause"]) is False
    return out


def h_gap(rp):
    """two expressions separated by a longer run of white space must still form one sequence"""
    import importlib
    C = importlib.import_module("ctparse.ctparse")
    R = importlib.import_module("ctparse.rule")
    out = {"func": rp["func"], "clause": rp["clause"]}
    bad = []
    for txt in ("tomorrow  8pm", "tomorrow \t 8pm", "tomorrow 8pm", "tomorrow8pm"):
        ms = C._match_regex(txt, R._regex)
        seqs = C._regex_stack(txt, ms)
        joint = any(any(m.mstart == 0 for m in s) and any(txt[m.mstart:m.mend].strip().startswith("8pm") for m in s) for s in seqs)
        if not joint:
            bad.append(txt)
    out["texts_without_a_joint_sequence"] = bad
    out["confirmed"] = bool(bad)
    return out


def h_regexmatch(rp):
    """spans of real pattern matches on texts with a word after the expression"""
    import importlib
    C = importlib.import_module("ctparse.ctparse")
    R = importlib.import_module("ctparse.rule")
    out = {"func": rp["func"], "clause": rp["clause"]}
    bad = []
    for txt in ("wed foo", "zehn foo", "2000 foo", "3 foo", "10h foo", "ein tag foo", "half an hour foo", "tomorrow 8pm foo"):
        for m in C._match_regex(txt, R._regex):
            seg = txt[m.mstart:m.mend]
            if seg != seg.strip() or m.mstart >= m.mend or m.mstart != m.match.span("R%d" % m.id)[0]:
                bad.append({"text": txt, "pattern_id": m.id, "span": [m.mstart, m.mend], "covers": seg})
                break
    out["spans_with_a_blank_or_empty"] = bad[:5]
    out["confirmed"] = bool(bad)
    return out


HANDLERS = [("timers.timeout._tt", h_timer), ("ctparse.ctparse_gen[", h_ctparse_gen), ("corpus.make_partial_rule_dataset", h_dataset), ("types.RegexMatch.__init__", h_regexmatch), ("loader.load_default_scorer", h_loader), ("nb_scorer.", h_nb), ("ctparse._regex_stack.get_m_dist", h_gap), ("partial_parse.PartialParse.", h_partial_parse), ("nb_estimator.", h_nb), ("ctparse._match_rule", h_match_rule), ("ctparse._ctparse.emission", h_emission), ("ctparse._ctparse", h_deadline), ("ctparse._regex_stack", h_deadline), ("ctparse._get_labels", h_labels), ("ctparse.ctparse[", h_ctparse), ("regex[", h_reglan),
            ("types.Artifact.__eq__", h_eq), ("corpus.parse_nb_string.nb_str", h_roundtrip),
            ("postprocess_latent.apply_postprocessing_rules", h_postprocess),
            ("types.Time.", h_accessor), ("types.Interval.", h_accessor),
            ("rule.rule.fwrapper.wrapper", h_wrapper)]
