"""Finite vocabulary check (exhaustive over spec/vocab.py) with the REAL regex engine: every word
of the specification grammar is matched entirely by the pattern of the intended rule and sets the
intended groups.  Run under /venv.  -> JSON {family: {"n": .., "bad": [...]}}"""
import json
import sys
import warnings
warnings.simplefilter("ignore")


def main():
    import ctparse.rule as R
    from spec.vocab import entries
    res = {}
    for fam, rule, pos, word, groups in entries():
        st = res.setdefault(fam, {"n": 0, "bad": []})
        st["n"] += 1
        if rule not in R.rules:
            st["bad"].append({"word": word, "rule": rule, "problem": "no such rule"})
            continue
        pred = R.rules[rule][1][pos]
        rid = pred.__closure__[0].cell_contents if pred.__name__ == "_regex_match" else None
        if rid is None:
            st["bad"].append({"word": word, "rule": rule, "problem": "argument %d is not a pattern" % pos})
            continue
        m = R._regex[rid].fullmatch(word)
        if m is None:
            if len(st["bad"]) < 6:
                st["bad"].append({"word": word, "rule": rule, "problem": "not matched entirely by the pattern"})
            continue
        for g, want in groups.items():
            try:
                got = m.group(g)
            except IndexError:
                # the pattern has no group of that name (renamed?): the word is matched, what it denotes is not decided here
                st.setdefault("undecided", []).append({"word": word, "rule": rule, "problem": "the pattern has no group named %s" % g})
                break
            ok = (got is not None and got != "") == want if isinstance(want, bool) else (got is not None and got.strip().isdigit() and int(got) == want)
            if not ok:
                if len(st["bad"]) < 6:
                    st["bad"].append({"word": word, "rule": rule, "group": g, "value": got, "expected": want})
                break
    # C20: a clock pattern must not extend into the first letters of a following day word
    from spec import vocab as V
    daywords = ["heute", "morgen", "übermorgen", "gestern", "today", "tomorrow", "yesterday"] + V.EN_DOW + V.DE_DOW + V.AB_DOW + \
        V.EN_MONTH + V.DE_MONTH
    st = res.setdefault("C20 clock patterns do not swallow the start of the next word", {"n": 0, "bad": []})
    for rule in ("ruleHHMM", "ruleHHMMmilitary", "ruleHHOClock"):
        pred = R.rules[rule][1][0]
        rid = pred.__closure__[0].cell_contents
        rr = R._regex[rid]
        for h in ("8", "12", "0830", "17:45", "9.15"):
            for w in daywords:
                text = h + " " + w
                st["n"] += 1
                for m in rr.finditer(text, overlapped=True):
                    s0, e0 = m.span("R%d" % rid)
                    if s0 < len(h) and e0 > len(h) + 1 and e0 < len(text):
                        if len(st["bad"]) < 6:
                            st["bad"].append({"text": text, "rule": rule, "match": text[s0:e0],
                                              "problem": "the clock match ends inside the following word"})
                        break
    print(json.dumps(res))


main()
