"""Bounded stand-in for C11 (_preprocess_string): exhaustive over all code points as a single
separator, and over all short strings of class representatives.  Run under /venv.
usage: bounded_c11.py <tier> -> JSON"""
import itertools
import json
import sys
import unicodedata
import importlib
import warnings
warnings.simplefilter("ignore")


def spec_single(c):
    cat = unicodedata.category(c)
    if cat[0] in "ZC" or cat in ("Ps", "Pe") or c in ",;":
        return "a b"
    if cat == "Pd" or 0x2010 <= ord(c) <= 0x2015 or ord(c) == 0x2043:
        return "a-b"
    return "a" + c + "b"


def spec_norm(s):
    """independent statement of the normalisation: separator runs -> one blank, trimmed; dash runs -> '-'"""
    def is_sep(c):
        cat = unicodedata.category(c)
        return cat[0] in "ZC" or cat in ("Ps", "Pe") or c in ",;"

    def is_dash(c):
        return unicodedata.category(c) == "Pd" or 0x2010 <= ord(c) <= 0x2015 or ord(c) == 0x2043
    out = []
    for c in s:
        if is_sep(c):
            if out and out[-1] == " ":
                continue
            out.append(" ")
        else:
            out.append(c)
    t = "".join(out).strip()
    out = []
    for c in t:
        if is_dash(c):
            if out and out[-1] == "-" and getattr(spec_norm, "_lastdash", False):
                continue
            out.append("-")
            spec_norm._lastdash = True
        else:
            out.append(c)
            spec_norm._lastdash = False
    spec_norm._lastdash = False
    return "".join(out).strip()


def main():
    tier = sys.argv[1] if len(sys.argv) > 1 else "quick"
    import regex
    C = importlib.import_module("ctparse.ctparse")
    P = C._preprocess_string
    bad, skew = [], []
    cases = 0
    for cp in range(0x110000):
        c = chr(cp)
        cases += 1
        try:
            got = P("a" + c + "b")
        except Exception as e:
            bad.append({"code_point": "U+%04X" % cp, "raises": repr(e)})
            continue
        want = spec_single(c)
        if got != want:
            cat = unicodedata.category(c)
            if regex.match(r"\p{%s}" % cat, c) is None:
                skew.append("U+%04X" % cp)         # the two Unicode databases disagree on the category
            elif len(bad) < 8:
                bad.append({"code_point": "U+%04X" % cp, "category": cat, "real": got, "spec": want})
    n = 7 if tier == "thorough" else 5
    reps = ["a", " ", ",", "(", "–", "-", "\t"]
    distinct = set()
    for k in range(0, n + 1):
        for t in itertools.product(reps, repeat=k):
            s = "".join(t)
            cases += 1
            r = P(s)
            distinct.add(r)
            ok = P(r) == r and r == r.strip() and "  " not in r and r == spec_norm(s)
            if not ok and len(bad) < 12:
                bad.append({"text": s, "real": r, "renormalised": P(r), "spec": spec_norm(s)})
    # end to end: expressions under case changes and separator substitutions resolve alike
    from datetime import datetime
    from ctparse.time.corpus import corpus
    step = 1 if tier == "thorough" else 3
    extra = ["übermorgen", "am 5. märz", "nächsten montag", "fünf uhr", "zwölf uhr", "für zwei nächte", "frühestens 5 uhr", "spätestens morgen",
             "dreißig tage", "samstag früh", "heute nachmittag um 15:30", "Jan 5th 2021 5pm - 6pm"]
    pool = [(e, datetime(2018, 3, 7, 12, 43)) for e in extra]
    for target, t, tests in corpus:
        for e in tests[::step]:
            pool.append((e, datetime.strptime(t, "%Y-%m-%dT%H:%M")))
    nvar = 0
    for e, ts in pool:
        def val(x):
            r = C.ctparse(x, ts=ts, timeout=0).resolution
            return None if r is None else str(r)
        base = val(e)
        vs = {"upper": e.upper(), "lower": e.lower(), "title": e.title(), "comma": e.replace(" ", ", "), "tab": e.replace(" ", "\t"),
              "brackets": "(" + e + ")", "semicolon": e.replace(" ", " ; "), "en-dash": e.replace("-", "\u2013"), "padded": "  " + e + " ,"}
        for k, v in vs.items():
            if v == e:
                continue
            cases += 1
            nvar += 1
            try:
                got = val(v)
            except Exception as ex:
                got = "raises %r" % ex
            if got != base and len(bad) < 12:
                bad.append({"variant": k, "text": v, "ts": ts.isoformat(), "real": got, "spec": "as for %r: %s" % (e, base)})
    print(json.dumps({"cases": cases, "distinct": len(distinct) + 0x110000, "bad": bad, "version_skew": skew[:20], "n_skew": len(skew),
                      "bound": "every code point U+0000..U+10FFFF as single separator between 'a' and 'b'; all strings of length <= %d over 7 class representatives (idempotence, trimming, run collapsing, equality with the stated normalisation); %d case / separator variants of %d corpus and vocabulary expressions through the real ctparse" % (n, nvar, len(pool))}))


main()
