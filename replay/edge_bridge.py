"""C09, adversarial contexts (bounded stand-in, real code under /venv).

Input (stdin, JSON): {"runs": [{"pid": regex id, "tail": bool, "run": letters}, ...], "n": pool size knob}
-- the edge runs computed by pyvc/regexguard.py from the parse trees of the pattern constants: letter
runs with which a match can end (after a blank inside the match) / begin (before a blank inside the
match) unguarded.  For each run an inert neighbour word is built that starts / ends with it
(inertness decided, as the property says, by running the library's own patterns over the word), and
every expression of the pool on which that pattern then really matches across the boundary is parsed
alone and next to the word: resolution and span text must be the same.
Output: JSON {"cases", "crossing", "bad": [...]}"""
import json
import sys
import warnings
from datetime import datetime
warnings.simplefilter("ignore")

SUF = ["x", "q", "zz", "e", "s", "en", "ing", "ä"]
PRE = ["x", "q", "zz", "k", "piz", "ro", "ä"]
EXTRA = ["friday at 8", "tomorrow 5", "tomorrow at 5", "8", "2019", "morgens um 8", "8. Mai 2018", "am 5", "at 12", "monday 9-5",
         "quarter to 5", "quarter past 5", "viertel vor 5", "halb 5", "half past 5", "before 5pm", "after 5pm", "vor 17 uhr", "nach 17 uhr",
         "not before 5pm", "nicht vor 17 uhr", "end of month", "ende des monats", "end of the year", "EOM", "now", "jetzt", "right now",
         "early", "früh", "very early", "as early as possible", "next monday", "nächsten montag", "monday next week", "montag nächste woche",
         "spätestens 17 uhr", "frühestens 5 uhr", "from 5pm", "ab 17 uhr", "bis 17 uhr", "until 5pm", "the 5th", "am 5.", "5 o'clock",
         "5 uhr", "um 5", "eight o'clock", "acht uhr", "in the morning", "at this time", "um diese zeit", "vorgestern", "vor gestern",
         "the day before yesterday", "today", "heute", "first possible", "latest", "tomorrow 8 to 10", "morgen 8 bis 10", "8 to 10",
         "5pm", "5 pm", "17:00", "5:30pm", "tomorrow", "friday", "next week"]


def main():
    import importlib
    req = json.load(sys.stdin)
    C = importlib.import_module("ctparse.ctparse")
    R = importlib.import_module("ctparse.rule")
    from ctparse.time.corpus import corpus
    ts0 = datetime(2018, 3, 7, 12, 43)
    pool = [(e, ts0) for e in EXTRA]
    step = 1 if req.get("n", 5) > 8 else 3
    for target, t, tests in corpus:
        for e in tests[::step]:
            pool.append((e, datetime.strptime(t, "%Y-%m-%dT%H:%M")))
    pre = [(e, ts, C._preprocess_string(e)) for e, ts in pool]
    inert_cache = {}

    def inert(w):
        if w not in inert_cache:
            inert_cache[w] = not C._match_regex(w, R._regex)
        return inert_cache[w]
    base_cache = {}

    def base(e, ts):
        if (e, ts) not in base_cache:
            r = C.ctparse(e, ts=ts, timeout=0)
            be = C._preprocess_string(e)
            base_cache[(e, ts)] = (r.resolution, None if r.resolution is None else be[r.resolution.mstart:r.resolution.mend])
        return base_cache[(e, ts)]
    bad, cases, crossing, no_word = [], 0, 0, []
    per_run = {}
    for item in req["runs"]:
        pid, tail, run = item["pid"], item["tail"], item["run"]
        rr = R._regex.get(pid)
        if rr is None:
            continue
        words = [w for w in ([run + s for s in SUF] if tail else [p + run for p in PRE]) if inert(w)][:2]
        key = "%d:%s:%s" % (pid, "tail" if tail else "head", run)
        if not words:
            no_word.append(key)       # every tried word with this run is matched by some pattern: not an inert neighbour
            continue
        hit = False
        for w in words:
            for e, ts, pe in pre:
                text = pe + " " + w if tail else w + " " + pe
                off = 0 if tail else len(w) + 1
                key_r = "R%d" % pid
                alone = {m.span(key_r) for m in rr.finditer(pe, overlapped=True)}
                here = {(m.span(key_r)[0] - off, m.span(key_r)[1] - off) for m in rr.finditer(text, overlapped=True)}
                # the lemma C09 rests on: the matches of the pattern on the embedded text are its matches on the expression
                if here == alone:
                    continue
                crossing += 1
                hit = True
                cases += 1
                want, want_txt = base(e, ts)
                if want is None:
                    continue
                full = e + " " + w if tail else w + " " + e
                r = C.ctparse(full, ts=ts, timeout=0)
                t2 = C._preprocess_string(full)
                got_txt = None if r.resolution is None else t2[r.resolution.mstart:r.resolution.mend]
                if r.resolution != want or got_txt != want_txt:
                    per_run.setdefault(key, [])
                    if len(per_run[key]) < 2:
                        per_run[key].append({"key": key, "text": full, "ts": ts.isoformat(), "pattern": pid, "inert_word": w,
                                             "real": "%s, span covers %r" % (r.resolution, got_txt),
                                             "spec": "as for the expression alone: %s, span covers %r" % (want, want_txt)})
    for k in sorted(per_run):
        bad.extend(per_run[k])
    print(json.dumps({"cases": cases, "crossing": crossing, "runs": len(req["runs"]), "runs_without_inert_word": len(no_word),
                      "bad": bad[:400], "n_bad": len(bad), "bad_runs": sorted(per_run)}, ensure_ascii=False))


from replay._guard import run_guarded  # noqa: E402
run_guarded(main, 'the real parser raises next to an inert word')
