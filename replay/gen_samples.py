"""CPython side of the executor cross-check: call every registered rule body (and a few helpers)
on random arguments that satisfy the rule's declared predicates, record arguments and outcome.
Run under /venv.   usage: gen_samples.py <seed> <per_rule> -> JSON on stdout"""
import json
import random
import sys
import warnings
from datetime import datetime, timedelta
warnings.simplefilter("ignore")


def enc(v):
    import ctparse.types as T
    if v is None or isinstance(v, (bool, int, float, str)):
        return v
    if isinstance(v, T.Time):
        return {"kind": "Time", "attrs": {f: getattr(v, f) for f in ("year", "month", "day", "hour", "minute", "DOW", "POD")},
                "mstart": v.mstart, "mend": v.mend}
    if isinstance(v, T.Interval):
        return {"kind": "Interval", "attrs": {"t_from": enc(v.t_from), "t_to": enc(v.t_to)}, "mstart": v.mstart, "mend": v.mend}
    if isinstance(v, T.Duration):
        return {"kind": "Duration", "attrs": {"value": v.value, "unit": {"enum": "DurationUnit", "name": v.unit.name}},
                "mstart": v.mstart, "mend": v.mend}
    if isinstance(v, datetime):
        return {"kind": "datetime", "fields": [v.year, v.month, v.day, v.hour, v.minute, v.second, v.microsecond]}
    return repr(v)


def main():
    seed, per = int(sys.argv[1]), int(sys.argv[2])
    rng = random.Random(seed)
    import ctparse.rule as R
    import ctparse.types as T
    from replay.harness import raw_rule
    from spec.vocab import entries
    pods = sorted(T.pod_hours)
    words = {}
    for fam, rule, pos, word, groups in entries():
        words.setdefault((rule, pos), []).append(word)
    extra = ["1", "12", "31", "3.", "15th", "2nd", "05", "2019", "99", "07", "1.2", "31.12", "29.2.", "02/28", "12-24", "dec/24", "24.12.2020",
             "1/1/99", "29-feb-2016", "1230", "0905 h", "17:45", "5pm", "12 am", "12:30 p.m.", "0:15", "early", "very late", "sehr früh",
             "morning", "first", "last", "afternoon", "night", "3 days", "10 nights", "2 weeks", "45 minutes", "12345 days", "at", "of",
             "from", "before", "not after", "nicht vor", "-", "to", "for", "für", "next", "this", "next week", "half", "quarter past",
             "jan", "feb.", "sept", "midnight", "eleven", "zwölf uhr", "ein tag", "twentyone days", "einunddreissig nächte",
             "half an hour", "1/2 day", "EOM", "jahresende", "heute", "now", "tmrw", "übermorgen", "gestern", "vorgestern",
             "wed", "Do.", "sonnabend", "frühestens", "spätestens"]

    def rand_time(kind):
        y, mo = rng.choice([1999, 2000, 2016, 2019, 2020, 2023, 2024, 2100]), rng.randint(1, 12)
        import calendar
        d = rng.randint(1, calendar.monthrange(y, mo)[1])
        h, mi = rng.randint(0, 23), rng.choice([0, 0, 15, 30, 59, rng.randint(0, 59)])
        shapes = {
            "isDOM": dict(day=rng.randint(1, 31)), "isMonth": dict(month=mo), "isDOW": dict(DOW=rng.randint(0, 6)),
            "isPOD": dict(POD=rng.choice(pods)), "isYear": dict(year=y), "isDOY": dict(month=mo, day=d),
            "isDate": dict(year=y, month=mo, day=d), "isTOD": rng.choice([dict(hour=h), dict(hour=h, minute=mi)]),
            "isDateTime": rng.choice([dict(year=y, month=mo, day=d, hour=h), dict(year=y, month=mo, day=d, hour=h, minute=mi)]),
            "hasDate": rng.choice([dict(year=y, month=mo, day=d), dict(year=y, month=mo, day=d, hour=h, minute=mi),
                                   dict(year=y, month=mo, day=d, POD=rng.choice(pods))]),
            "hasDOW": rng.choice([dict(DOW=rng.randint(0, 6)), dict(DOW=rng.randint(0, 6), POD=rng.choice(pods))]),
            "hasTime": dict(hour=h, minute=mi), "any": rng.choice([dict(hour=h), dict(year=y, month=mo, day=d), dict(POD=rng.choice(pods)),
                                                                    dict(day=d), dict(DOW=rng.randint(0, 6))]),
        }
        return T.Time(**shapes.get(kind, shapes["any"]))

    def rand_interval(kind):
        if kind == "isDateInterval":
            a = rand_time("isDate")
            b = T.Time(a.year, a.month, a.day)
            dt = b.dt + timedelta(days=rng.randint(0, 40))
            return T.Interval(a, T.Time(dt.year, dt.month, dt.day))
        ends = [rng.choice([None, rand_time("isTOD"), rand_time("isTOD"), rand_time("isPOD"), rand_time("isDateTime")]) for _ in range(2)]
        if ends[0] is None and ends[1] is None:
            ends[0] = rand_time("isTOD")
        if ends[0] is not None and ends[1] is not None and ends[0].isTOD and ends[1].isTOD and ends[0].hour <= 12 and ends[1].hour <= 12 \
                and ends[0].hour > ends[1].hour:
            ends = ends[::-1]           # keep the invariant of date-less clock ranges (aux invariant)
        return T.Interval(*ends)

    def rand_duration():
        return T.Duration(rng.choice([0, 1, 2, 7, 30, 31, 120, 9999]), rng.choice(list(T.DurationUnit)))

    out = []
    for name, (wrapper, preds) in R.rules.items():
        f = raw_rule(name)
        made = 0
        tries = 0
        while made < per and tries < per * 40:
            tries += 1
            ts = datetime(rng.choice([1970, 1999, 2000, 2016, 2019, 2020, 2024, 2099, 2100]), rng.randint(1, 12), 1,
                          rng.randint(0, 23), rng.randint(0, 59), rng.randint(0, 59), rng.choice([0, 999999, rng.randint(0, 999999)]))
            ts = ts + timedelta(days=rng.randint(0, 30))
            if ts.year > 2100:
                continue
            args, desc, ok = [], [], True
            for pos, p in enumerate(preds):
                nm = p.__name__
                cell = p.__closure__[0].cell_contents if p.__closure__ else None
                if nm == "_regex_match":
                    pool = words.get((name, pos), []) + extra
                    w = rng.choice(pool)
                    m = R._regex[cell].fullmatch(w)
                    if m is None:
                        ok = False
                        break
                    args.append(T.RegexMatch(cell, m))
                    desc.append({"kind": "RegexMatch", "id": cell, "text": w,
                                 "groups": {g: m.group(g) for g in R._regex[cell].groupindex if not g.startswith("_") and g != "R%d" % cell}})
                elif nm == "_dimension":
                    o = {"Time": lambda: rand_time("any"), "Interval": lambda: rand_interval("any"), "Duration": rand_duration}[cell.__name__]()
                    args.append(o)
                    desc.append(enc(o))
                else:
                    if cell in ("isDateInterval", "isTimeInterval"):
                        o = rand_interval(cell)
                    else:
                        o = rand_time(cell)
                    if not p(o):
                        ok = False
                        break
                    args.append(o)
                    desc.append(enc(o))
            if not ok:
                continue
            # spans as the wrapper would see them
            pos0 = 0
            for a, d in zip(args, desc):
                a.mstart, a.mend = pos0, pos0 + 3
                d["mstart"], d["mend"] = pos0, pos0 + 3
                pos0 += 4
            try:
                r = f(ts, *args)
                res = {"result": enc(r)}
            except Exception as e:
                res = {"raises": type(e).__name__}
            out.append({"rule": name, "ts": enc(ts), "args": desc, **res})
            made += 1
    json.dump(out, sys.stdout)


main()
