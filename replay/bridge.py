"""Text-level bridge (bounded stand-in for A-regex + A-rank, thorough tier): surface forms of the
specification grammar x reference times through the REAL parser; the winner must be the spec value.
usage: bridge.py <prop> <seed> <n_ts> -> JSON"""
import calendar
import json
import random
import sys
import warnings
from datetime import datetime, timedelta
warnings.simplefilter("ignore")


def ref_times(rng, n):
    out = [datetime(2020, 2, 29, 23, 59, 59, 999999), datetime(2019, 12, 31, 12, 0), datetime(2021, 1, 31, 0, 0, 1),
           datetime(2018, 3, 7, 12, 43), datetime(2024, 2, 28, 8, 15), datetime(2100, 2, 28, 17, 30)]
    while len(out) < n:
        out.append(datetime(2016, 1, 1) + timedelta(days=rng.randrange(365 * 28), hours=rng.randrange(24), minutes=rng.randrange(60)))
    return out[:n]


def next_dow(ts, k, lo):
    d = ts.date() + timedelta(days=lo)
    while d.weekday() != k:
        d += timedelta(days=1)
    return d


def cases_C03(ts):
    from spec import vocab as V
    d = ts.date()
    out = []
    for w, delta in (("today", 0), ("heute", 0), ("tomorrow", 1), ("morgen", 1), ("tmrw", 1), ("übermorgen", 2), ("yesterday", -1),
                     ("gestern", -1), ("vorgestern", -2)):
        x = d + timedelta(days=delta)
        out.append((w, ("date", x.year, x.month, x.day)))
    out.append(("now", ("datetime", d.year, d.month, d.day, ts.hour, ts.minute)))
    out.append(("jetzt", ("datetime", d.year, d.month, d.day, ts.hour, ts.minute)))
    last = calendar.monthrange(d.year, d.month)[1]
    for w in ("end of month", "EOM", "ende des monats"):
        out.append((w, ("date", d.year, d.month, last)))
    for w in ("end of year", "EOY", "jahresende"):
        out.append((w, ("date", d.year, 12, 31)))
    for k in range(7):
        for name in (V.EN_DOW[k], V.DE_DOW[k]):
            x = next_dow(ts, k, 1)
            out.append((name, ("date", x.year, x.month, x.day)))
            out.append(("this " + name, ("date", x.year, x.month, x.day)))
            y = next_dow(ts, k, 7)
            out.append(("next " + name, ("date", y.year, y.month, y.day)))
            out.append((name + " next week", ("date", y.year, y.month, y.day)))
    return out


def next_dom(ts, day):
    d = ts.date() + timedelta(days=1)
    while d.day != day:
        d += timedelta(days=1)
    return d


def next_doy(ts, month, day):
    y = ts.year
    while True:
        try:
            x = datetime(y, month, day).date()
            if x >= ts.date():
                return x
        except ValueError:
            pass
        y += 1


def cases_C04(ts):
    from spec import vocab as V
    out = []
    for day in range(1, 32):
        x = next_dom(ts, day)
        for w in ("%d." % day, "on the %d%s" % (day, "th" if day not in (1, 2, 3, 21, 22, 23, 31) else {1: "st", 2: "nd", 3: "rd"}[day % 10])):
            out.append((w, ("date", x.year, x.month, x.day)))
    for mo, day in ((2, 29), (1, 31), (12, 31), (ts.month, ts.day), (6, 15), (3, 1)):
        x = next_doy(ts, mo, day)
        for w in ("%d.%d." % (day, mo), "%s %d" % (V.EN_MONTH[mo - 1], day), "%d %s" % (day, V.EN_MONTH[mo - 1]),
                  "%d. %s" % (day, V.DE_MONTH[mo - 1])):
            out.append((w, ("date", x.year, x.month, x.day)))
    return out


def cases_C05(ts):
    from spec import vocab as V
    rng = random.Random(ts.toordinal())
    out = []
    for _ in range(12):
        y, mo = rng.randrange(1990, 2030), rng.randrange(1, 13)
        day = rng.randrange(1, calendar.monthrange(y, mo)[1] + 1)
        want = ("date", y, mo, day)
        forms = ["%02d.%02d.%d" % (day, mo, y), "%d/%d/%d" % (day, mo, y), "%d-%d-%d" % (day, mo, y),
                 "%d %s %d" % (day, V.EN_MONTH[mo - 1], y), "%d. %s %d" % (day, V.DE_MONTH[mo - 1], y),
                 "%s %d %d" % (V.EN_MONTH[mo - 1], day, y)]
        if y >= 2000:
            forms.append("%02d.%02d.%02d" % (day, mo, y % 100))
        for f in forms:
            # the documented military-time heuristic makes a 4-digit year that reads as hh:mm (mm multiple of 5) ambiguous
            timelike = y // 100 < 24 and y % 100 < 60 and (y % 100) % 5 == 0
            if not (any(c.isalpha() for c in f) and timelike):
                out.append((f, want))
        out.append(("%02d.%02d.%d 14:30" % (day, mo, y), ("datetime", y, mo, day, 14, 30)))
        if not (y // 100 < 24 and y % 100 < 60 and (y % 100) % 5 == 0):
            out.append(("%d %s %d at 9:05" % (day, V.EN_MONTH[mo - 1], y), ("datetime", y, mo, day, 9, 5)))
    return out


def cases_C06(ts):
    rng = random.Random(ts.toordinal() + 7)
    out = []
    hm = [(0, 0), (12, 0), (23, 59), (12, 30), (0, 5)] + [(rng.randrange(24), rng.randrange(60)) for _ in range(10)]
    for h, m in hm:
        want = ("tod", h, m)
        forms = ["%d:%02d" % (h, m), "%02d:%02d" % (h, m), "%d:%02d uhr" % (h, m)]
        h12, suf = (h % 12 or 12), ("am" if h < 12 else "pm")
        forms += ["%d:%02d%s" % (h12, m, suf), "%d:%02d %s" % (h12, m, suf), "%d:%02d %s" % (h12, m, suf.upper())]
        if m == 0:
            forms += ["%d uhr" % h, "%d%s" % (h12, suf), "%d %s" % (h12, suf), "%d o'clock" % h if h else "0 uhr"]
        for f in forms:
            out.append((f, want, {"latent_time": False}))
        # latent anchoring: first such time strictly after the reference minute
        t0 = ts.replace(hour=h, minute=m, second=0, microsecond=0)
        if (h, m) <= (ts.hour, ts.minute):
            t0 += timedelta(days=1)
        out.append(("%d:%02d" % (h, m), ("datetime", t0.year, t0.month, t0.day, h, m), {"latent_time": True}))
    for h in (1, 6, 11, 12):
        for form, hh, mm in (("quarter past %d", h, 15), ("viertel nach %d", h, 15), ("half past %d", h, 30),
                             ("quarter to %d", (h - 1) % 24, 45), ("viertel vor %d", (h - 1) % 24, 45), ("halb %d", (h - 1) % 24, 30)):
            out.append((form % h, ("tod", hh, mm), {"latent_time": False}))
    for h in (1, 5, 9, 11):
        out.append(("%d in the afternoon" % h, ("tod", h + 12, 0), {"latent_time": False}))
        out.append(("%d in the evening" % h, ("tod", h + 12, 0), {"latent_time": False}))
        out.append(("%d in the morning" % h, ("tod", h, 0), {"latent_time": False}))
    return out


def cases_C08(ts):
    from spec import vocab as V
    out = []
    for n in (0, 1, 2, 7, 15, 31, 120):
        for unit, words in V.UNIT_WORDS.items():
            out.append(("%d %s" % (n, words[1] if n != 1 else words[0]), ("duration", n, unit)))
    for n in range(1, 32):
        out.append(("%s days" % V.en_number(n)[0], ("duration", n, "days")))
        out.append(("%s tage" % V.de_number(n)[-1 if n in (30, 31) else 0], ("duration", n, "days")))
    out.append(("half an hour", ("duration", 30, "minutes")))
    out.append(("half a day", ("duration", 12, "hours")))
    d = ts.date()
    for n, unit, delta in ((2, "days", timedelta(days=2)), (3, "nights", timedelta(days=3)), (2, "weeks", timedelta(days=14))):
        e = d + timedelta(days=1) + delta
        t = d + timedelta(days=1)
        out.append(("tomorrow for %d %s" % (n, unit), ("interval", ("date", t.year, t.month, t.day), ("date", e.year, e.month, e.day))))
    return out


def cases_C20(ts):
    from spec import vocab as V
    d = ts.date()
    days = [("today", d), ("tomorrow", d + timedelta(days=1)), ("heute", d), ("morgen", d + timedelta(days=1)),
            (V.EN_DOW[2], next_dow(ts, 2, 1)), (V.DE_DOW[4], next_dow(ts, 4, 1)), ("1.3.2021", datetime(2021, 3, 1).date()),
            # the day written with its connecting word; the weekday of the reference day itself included
            ("on " + V.EN_DOW[ts.weekday()], next_dow(ts, ts.weekday(), 1)), ("this " + V.EN_DOW[2], next_dow(ts, 2, 1)),
            ("am " + V.DE_DOW[ts.weekday()], next_dow(ts, ts.weekday(), 1))]
    clocks = [("8:30", 8, 30), ("17:45", 17, 45), ("8pm", 20, 0), ("9 uhr", 9, 0), ("3:15 pm", 15, 15)]
    out = []
    for dw, dd in days:
        for cw, h, m in clocks:
            want = ("datetime", dd.year, dd.month, dd.day, h, m)
            for f in ("%s %s" % (dw, cw), "%s %s" % (cw, dw), "%s at %s" % (dw, cw), "%s um %s" % (dw, cw)):
                out.append((f, want))
    return out


def cases_C07(ts):
    d = ts.date() + timedelta(days=1)
    out = []
    D = ("date", d.year, d.month, d.day)
    for a, b in ((9, 17), (9, 5), (23, 3), (10, 12), (8, 20), (1, 2)):
        for j in ("-", " to ", " bis ", " until "):
            ha, hb = a, b
            e = d
            if hb <= ha:
                if ha <= 12 and hb <= 12:
                    hb += 12
                else:
                    e = d + timedelta(days=1)
            out.append(("tomorrow %d:00%s%d:00" % (a, j, b), ("interval", ("datetime", d.year, d.month, d.day, ha, 0),
                                                                    ("datetime", e.year, e.month, e.day, hb % 24, 0))))
    x, y = datetime(2021, 3, 1).date(), datetime(2021, 3, 5).date()
    for f in ("1.3.2021 - 5.3.2021", "1.3.2021 bis 5.3.2021", "between 1.3.2021 and 5.3.2021", "from 1.3.2021 to 5.3.2021"):
        out.append((f, ("interval", ("date", 2021, 3, 1), ("date", 2021, 3, 5))))
    out.append(("before 1.3.2021", ("interval", None, ("date", 2021, 3, 1))))
    out.append(("after 1.3.2021", ("interval", ("date", 2021, 3, 1), None)))
    out.append(("not before 1.3.2021", ("interval", ("date", 2021, 3, 1), None)))
    return out


def cases_C09(ts):
    """(expression, context) pairs: the resolution and the exact span must not depend on inert words around"""
    return []


def value_of(res):
    import ctparse.types as T
    if res is None:
        return None
    if isinstance(res, T.Time):
        if res.isDate:
            return ("date", res.year, res.month, res.day)
        if res.isDateTime:
            return ("datetime", res.year, res.month, res.day, res.hour, res.minute or 0)
        if res.isTOD:
            return ("tod", res.hour, res.minute or 0)
    if isinstance(res, T.Duration):
        return ("duration", res.value, res.unit.value)
    if isinstance(res, T.Interval):
        return ("interval", value_of(res.t_from), value_of(res.t_to))
    return ("other", repr(res))


def context_invariance(C, rng, n):
    """C09 (bounded): corpus and grammar expressions embedded among 0-3 inert words"""
    import ctparse.rule as R
    from ctparse.time.corpus import corpus
    inert = [w for w in ("foo", "xyzzy", "pizza", "qwrt", "blorp", "zzz", "hello", "lunch", "kaufen", "projekt")
             if not C._match_regex(w, R._regex)]
    ts_default = datetime(2018, 3, 7, 12, 43)
    exprs = []
    for target, t, tests in corpus:
        for e in (tests if n > 8 else tests[:2]):
            exprs.append((e, datetime.strptime(t, "%Y-%m-%dT%H:%M")))
    for tsx in ref_times(rng, 3):
        for gen in (cases_C03, cases_C20):
            for case in gen(tsx)[:: (1 if n > 8 else 7)]:
                exprs.append((case[0], tsx))
    bad, cases = [], 0
    for e, ts in exprs:
        base = C.ctparse(e, ts=ts, timeout=0)
        if base.resolution is None:
            continue
        be = C._preprocess_string(e)
        want_txt = be[base.resolution.mstart:base.resolution.mend]
        ctxs = [((), (inert[0],)), ((inert[1],), ()), ((inert[2],), (inert[3],)), ((inert[0], inert[4], inert[5]), (inert[1], inert[2]))]
        for pre, suf in (ctxs if n > 8 else ctxs[1:3] + ctxs[:1]):
            text = " ".join(pre + (e,) + suf)
            cases += 1
            r = C.ctparse(text, ts=ts, timeout=0)
            if r.resolution != base.resolution:
                bad.append({"text": text, "ts": ts.isoformat(), "real": str(r.resolution), "spec": "as for the expression alone: " + str(base.resolution)})
                continue
            t2 = C._preprocess_string(text)
            got_txt = t2[r.resolution.mstart:r.resolution.mend]
            if got_txt != want_txt or got_txt != got_txt.strip():
                bad.append({"text": text, "ts": ts.isoformat(), "real": "span covers %r" % got_txt, "spec": "span covers %r" % want_txt})
    print(json.dumps({"cases": cases, "bad": bad[:300], "n_bad": len(bad)}))


def main():
    prop, seed, n = sys.argv[1], int(sys.argv[2]), int(sys.argv[3])
    import importlib
    C = importlib.import_module("ctparse.ctparse")
    rng = random.Random(seed)
    if prop == "C09":
        return context_invariance(C, rng, n)
    gen = {"C03": cases_C03, "C04": cases_C04, "C05": cases_C05, "C06": cases_C06, "C07": cases_C07, "C08": cases_C08,
           "C20": cases_C20}[prop]
    bad, cases = [], 0
    for ts in ref_times(rng, n):
        for case in gen(ts):
            text, want = case[0], case[1]
            kw = case[2] if len(case) > 2 else {}
            cases += 1
            try:
                r = C.ctparse(text, ts=ts, timeout=0, **kw)
                got = value_of(r.resolution)
            except Exception as e:
                got = ("raises", repr(e))
            if got != want:
                bad.append({"text": text, "ts": ts.isoformat(), "real": got, "spec": want, "options": kw})
    print(json.dumps({"cases": cases, "bad": bad[:300], "n_bad": len(bad)}))


main()
