"""Accessors that let one spec function read both
  * symbolic heap objects of the executor (pyvc.values.Obj with SOpt / z3 fields), and
  * native objects of the real library (replay under /venv, adapted by replay/harness.py
    into NObj with plain Python attribute values).
"""
from pyvc.logic import And, Or, Not, If, Eq, Implies, is_sym

TIME_FIELDS = ("year", "month", "day", "hour", "minute", "DOW", "POD")


class NObj:
    """native stand-in for a heap object (replay side)"""

    class _C:
        def __init__(self, name):
            self.name = name

    def __init__(self, clsname, attrs, ref=None):
        self.cls = NObj._C(clsname)
        self.attrs = attrs
        self.ref = ref          # the real object

    def __repr__(self):
        return "NObj(%s,%r)" % (self.cls.name, self.attrs)


def kind(o):
    """class name of an object value, 'None' for None, else python type name"""
    if o is None:
        return "None"
    if hasattr(o, "cls") and hasattr(o, "attrs"):
        return o.cls.name
    return type(o).__name__


def isnone(x):
    if x is None:
        return True
    if hasattr(x, "is_none") and hasattr(x, "val"):
        return x.is_none
    return False


def val(x):
    if hasattr(x, "is_none") and hasattr(x, "val"):
        return x.val
    return x


def fld(o, name):
    return o.attrs[name]


def has(o, name):
    """field is set (not None)"""
    return Not(isnone(fld(o, name)))


def v(o, name):
    """value of a field (meaningful only where has(o, name))"""
    x = val(fld(o, name))
    return 0 if x is None else x


def only(o, *names):
    """exactly these Time fields are set"""
    return And(*[has(o, f) if f in names else Not(has(o, f)) for f in TIME_FIELDS])


def atleast(o, *names):
    return And(*[has(o, f) for f in names])


def same_field(a, b, name):
    """field equal, None-ness included"""
    fa, fb = fld(a, name), fld(b, name)
    return Or(And(isnone(fa), isnone(fb)), And(Not(isnone(fa)), Not(isnone(fb)), str_or_int_eq(val(fa), val(fb))))


def field_is(o, name, value):
    """field is set and equals the int/str value"""
    f = fld(o, name)
    return And(Not(isnone(f)), str_or_int_eq(val(f), value))


def field_none(o, name):
    return isnone(fld(o, name))


def is_finstr(x):
    return hasattr(x, "options") and hasattr(x, "idx")


def str_or_int_eq(a, b):
    if a is None or b is None:
        return a is None and b is None
    if is_finstr(a) or is_finstr(b):
        if is_finstr(a) and is_finstr(b):
            return Or(*[And(Eq(a.idx, i), Eq(b.idx, j)) for i, x in enumerate(a.options)
                        for j, y in enumerate(b.options) if x == y])
        f, o = (a, b) if is_finstr(a) else (b, a)
        return f.where(lambda s: s == o)
    return Eq(a, b)


def str_where(x, pred):
    """pred holds of the str value x (FinStr or native str)"""
    if is_finstr(x):
        return x.where(pred)
    return pred(x)


def str_lookup_int(x, table, f):
    """f(table[x]) as int term for a str value x known to be a key of table"""
    if is_finstr(x):
        t = None
        for i in range(len(x.options) - 1, -1, -1):
            o = x.options[i]
            if o not in table:
                continue
            vv = f(table[o])
            t = vv if t is None else If(Eq(x.idx, i), vv, t)
        return 0 if t is None else t
    return f(table[x])


def same_time_value(a, b):
    """two Time objects denote the same value (all seven fields)"""
    return And(*[same_field(a, b, f) for f in TIME_FIELDS])


def opt_obj(x):
    """(is_none, object) of an Optional[object] attribute value"""
    return isnone(x), val(x)


# ------------------------------------------------------------------ regex match arguments
CURRENT_IT = [None]     # set by the verifier while a clause is evaluated symbolically


def _mv(m):
    return m.attrs["match"]


def g_present(m, name):
    mv = _mv(m)
    if hasattr(mv, "present"):
        return mv.present[name]
    return mv.group(name) is not None


def g_truthy(m, name):
    mv = _mv(m)
    if hasattr(mv, "present"):
        return And(mv.present[name], mv.nonempty[name])
    return bool(mv.group(name))


def g_int(m, name):
    mv = _mv(m)
    if hasattr(mv, "ints"):
        return mv.ints[name]
    s = mv.group(name)
    return int(s) if s is not None else 0


def g_len(m, name):
    mv = _mv(m)
    if hasattr(mv, "present"):
        return mv.length(CURRENT_IT[0], name)
    s = mv.group(name)
    return len(s) if s is not None else 0


def g_has_letter(m, name, letter):
    """the (present) group text contains the letter, case-insensitively"""
    mv = _mv(m)
    if hasattr(mv, "present"):
        import z3
        from pyvc.interp import GroupVal
        st = CURRENT_IT[0].group_text(GroupVal(mv, name))
        full = z3.Full(z3.ReSort(z3.StringSort()))
        cs = sorted({letter.lower(), letter.upper()})
        return z3.InRe(st.t, z3.Concat(full, z3.Union(*[z3.Re(z3.StringVal(c)) for c in cs]), full))
    s = mv.group(name)
    return s is not None and letter.lower() in s.lower()


def group_names(m):
    mv = _mv(m)
    if hasattr(mv, "present"):
        return set(mv.present.keys())
    return set(mv.re.groupindex.keys()) if hasattr(mv, "re") else set(mv.names)
