"""Gregorian calendar specification, written from the calendar rules (NOT from
datetime/dateutil).  Dual mode: works on Python ints and on z3 Int terms."""
from pyvc.logic import And, Or, Not, If, Div, Mod, Eq, Implies

TS_YEAR_MIN, TS_YEAR_MAX = 1970, 2100      # reference times of the properties
WF_YEAR_MIN, WF_YEAR_MAX = 1800, 3100      # ends of an Interval (DESIGN 3.2)
WF_YEAR_MAX_TIME = 2200                   # stand-alone Time values


def leap(y):
    return Or(And(Eq(Mod(y, 4), 0), Not(Eq(Mod(y, 100), 0))), Eq(Mod(y, 400), 0))


def dim(y, m):
    """days in month m of year y"""
    return If(Eq(m, 2), If(leap(y), 29, 28),
              If(Or(Eq(m, 4), Eq(m, 6), Eq(m, 9), Eq(m, 11)), 30, 31))


def dim_max(m):
    """longest the month can be in any year"""
    return If(Eq(m, 2), 29, If(Or(Eq(m, 4), Eq(m, 6), Eq(m, 9), Eq(m, 11)), 30, 31))


def valid_date(y, m, d):
    return And(m >= 1, m <= 12, d >= 1, d <= dim(y, m))


CUM = (0, 31, 59, 90, 120, 151, 181, 212, 243, 273, 304, 334)   # days before month m in a common year


def ordinal_153(y, m, d):
    """days since 1970-01-01 (proleptic Gregorian), closed form (days-from-civil)"""
    y2 = If(m <= 2, y - 1, y)
    era = Div(y2 + 4000, 400) - 10          # floor(y2/400) for y2 > -4000
    yoe = y2 - era * 400
    mp = If(m > 2, m - 3, m + 9)
    doy = Div(153 * mp + 2, 5) + d - 1
    doe = yoe * 365 + Div(yoe, 4) - Div(yoe, 100) + doy
    return era * 146097 + doe - 719468


def ordinal(y, m, d):
    """days since 1970-01-01 (proleptic Gregorian): days before the year + days before the month
    + day; written from the calendar rules (y >= 1)"""
    y1 = y - 1
    before_year = 365 * y1 + Div(y1, 4) - Div(y1, 100) + Div(y1, 400)
    cum = CUM[11]
    for k in range(10, -1, -1):
        cum = If(Eq(m, k + 1), CUM[k], cum)
    return before_year + cum + If(And(m > 2, leap(y)), 1, 0) + d - 719163


def weekday(o):
    """Monday = 0; 1970-01-01 (ordinal 0) was a Thursday"""
    return Mod(o + 3, 7)


def date_lt(a, b):
    """lexicographic < on (y, m, d) triples"""
    return Or(a[0] < b[0], And(Eq(a[0], b[0]), Or(a[1] < b[1], And(Eq(a[1], b[1]), a[2] < b[2]))))


def date_le(a, b):
    return Or(date_lt(a, b), And(Eq(a[0], b[0]), Eq(a[1], b[1]), Eq(a[2], b[2])))


def lex_lt(a, b):
    """lexicographic < on equally long tuples of ints"""
    if not a:
        return False
    return Or(a[0] < b[0], And(Eq(a[0], b[0]), lex_lt(a[1:], b[1:])))


def lex_le(a, b):
    if not a:
        return True
    return Or(a[0] < b[0], And(Eq(a[0], b[0]), lex_le(a[1:], b[1:])))


def next_day(y, m, d):
    """the calendar day after (y, m, d)"""
    last = Eq(d, dim(y, m))
    dec = Eq(m, 12)
    return (If(And(last, dec), y + 1, y), If(last, If(dec, 1, m + 1), m), If(last, 1, d + 1))


def prev_day(y, m, d):
    first = Eq(d, 1)
    jan = Eq(m, 1)
    pm = If(jan, 12, m - 1)
    py = If(jan, y - 1, y)
    return (If(first, py, y), If(first, pm, m), If(first, dim(py, pm), d - 1))
