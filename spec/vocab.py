"""Surface vocabulary of the specification grammar (English / German), written from the
languages and the property statements -- NOT from the code's tables.  Each entry says: this word
must be matched *entirely* by the pattern of that rule (position of the pattern among the rule's
arguments), with these named groups set / denoting these ints.
An entry: (family, rule, pattern position, word, {group: True|False|int})"""

EN_DOW = ["monday", "tuesday", "wednesday", "thursday", "friday", "saturday", "sunday"]
DE_DOW = ["montag", "dienstag", "mittwoch", "donnerstag", "freitag", "samstag", "sonntag"]
AB_DOW = ["mon", "tue", "wed", "thu", "fri", "sat", "sun"]
GROUP_DOW = ["mon", "tue", "wed", "thu", "fri", "sat", "sun"]

EN_MONTH = ["january", "february", "march", "april", "may", "june", "july", "august", "september", "october",
            "november", "december"]
DE_MONTH = ["januar", "februar", "märz", "april", "mai", "juni", "juli", "august", "september", "oktober", "november",
            "dezember"]

EN_NUM = ["one", "two", "three", "four", "five", "six", "seven", "eight", "nine", "ten", "eleven", "twelve", "thirteen",
          "fourteen", "fifteen", "sixteen", "seventeen", "eighteen", "nineteen", "twenty"]
EN_UNITS = ["one", "two", "three", "four", "five", "six", "seven", "eight", "nine"]
DE_UNITS = ["ein", "zwei", "drei", "vier", "fünf", "sechs", "sieben", "acht", "neun"]


def en_number(n):
    if n <= 20:
        return [EN_NUM[n - 1]]
    if n < 30:
        return ["twenty" + EN_UNITS[n - 21]]
    if n == 30:
        return ["thirty"]
    return ["thirtyone"]


def de_number(n):
    if n == 1:
        return ["ein", "eine", "eins"]
    if n <= 9:
        return [DE_UNITS[n - 1]]
    teens = {10: "zehn", 11: "elf", 12: "zwölf", 13: "dreizehn", 14: "vierzehn", 15: "fünfzehn", 16: "sechzehn",
             17: "siebzehn", 18: "achtzehn", 19: "neunzehn", 20: "zwanzig"}
    if n in teens:
        return [teens[n]]
    if n < 30:
        return [DE_UNITS[n - 21] + "undzwanzig"]
    if n == 30:
        return ["dreißig", "dreissig"]
    return ["einunddreißig", "einunddreissig"]


UNIT_WORDS = {
    "minutes": ["minute", "minutes", "minuten"],
    "hours": ["hour", "hours", "stunde", "stunden"],
    "days": ["day", "days", "tag", "tage"],
    "nights": ["night", "nights", "nacht", "nächte"],
    "weeks": ["week", "weeks", "woche", "wochen"],
    "months": ["month", "months", "monat", "monate"],
}


def entries():
    out = []
    # ---- C03 relative days
    for rule, words in (("ruleToday", ["today", "heute"]), ("ruleNow", ["now", "jetzt", "right now"]),
                        ("ruleTomorrow", ["tomorrow", "tmrw", "morgen"]), ("ruleAfterTomorrow", ["übermorgen"]),
                        ("ruleYesterday", ["yesterday", "gestern"]), ("ruleBeforeYesterday", ["vorgestern", "vor gestern"]),
                        ("ruleEOM", ["end of month", "end of the month", "EOM", "eom", "ende des monats"]),
                        ("ruleEOY", ["end of year", "end of the year", "EOY", "eoy", "jahresende", "ende des jahres"])):
        for w in words:
            out.append(("C03 relative-day words", rule, 0, w, {}))
    for k in range(7):
        for w in (EN_DOW[k], DE_DOW[k], AB_DOW[k], EN_DOW[k].capitalize(), DE_DOW[k].upper()):
            g = {x: (x == GROUP_DOW[k]) for x in GROUP_DOW}
            out.append(("C03/C04 weekday names", "ruleNamedDOW", 0, w, g))
    for w in ("this", "on", "am", "diesen"):
        out.append(("C03 this/next words", "ruleAtDOW", 0, w, {}))
    for w in ("next", "following", "nächsten", "kommenden"):
        out.append(("C03 this/next words", "ruleNextDOW", 0, w, {}))
    for w in ("next week", "nächste Woche", "following week", "kommende Woche"):
        out.append(("C03 this/next words", "ruleDOWNextWeek", 1, w, {}))
    # ---- C05 month names
    for k in range(12):
        for w in (EN_MONTH[k], DE_MONTH[k], EN_MONTH[k][:3], EN_MONTH[k].capitalize()):
            g = {x: (x == EN_MONTH[k]) for x in EN_MONTH}
            out.append(("C05 month names", "ruleNamedMonth", 0, w, g))
    # ---- C06 clock notations
    for h in range(24):
        for m in (0, 5, 7, 30, 59):
            mm = "%02d" % m
            for w in ("%d:%s" % (h, mm), "%02d:%s" % (h, mm), "%d.%s" % (h, mm), "%dh%s" % (h, mm), "%duhr%s" % (h, mm)):
                out.append(("C06 24h clock notations", "ruleHHMM", 0, w, {"hour": h, "minute": m, "ampm": False}))
            out.append(("C06 four-digit clock", "ruleHHMMmilitary", 0, "%02d%s" % (h, mm), {"hour": h, "minute": m, "ampm": False}))
        for w in ("%d uhr" % h, "%duhr" % h, "%d Uhr" % h, "%d h" % h, "%dh" % h):
            out.append(("C06 24h clock notations", "ruleHHMM", 0, w, {"hour": h, "minute": False, "clock": True, "ampm": False}))
        for w in ("%d uhr" % h, "%d o'clock" % h, "%d oclock" % h, "%d h" % h):
            out.append(("C06 o'clock notations", "ruleHHOClock", 0, w, {"hour": h}))
    for h in range(1, 13):
        for suf in ("am", "pm", " am", " pm", "AM", "PM", " a.m.", " p.m.", "a.m.", "p.m.", " A.M.", " P.M.", " a.m", " p.m"):
            out.append(("C06/C20 12h clock notations", "ruleHHMM", 0, "%d%s" % (h, suf), {"hour": h, "minute": False, "ampm": True}))
            out.append(("C06/C20 12h clock notations", "ruleHHMM", 0, "%d:30%s" % (h, suf), {"hour": h, "minute": 30, "ampm": True}))
    for n, (en, de) in enumerate(zip(EN_NUM[:12], ["eins", "zwei", "drei", "vier", "fünf", "sechs", "sieben", "acht", "neun",
                                                   "zehn", "elf", "zwölf"]), 1):
        for w in (en, de, en + " o'clock", de + " uhr"):
            g = {"t_%d" % k: (k == n) for k in range(1, 13)}
            out.append(("C06 named hours", "ruleNamedHour", 0, w, g))
    for rule, words in (("ruleMidnight", ["midnight", "mitternacht"]),
                        ("ruleQuarterBeforeHH", ["quarter to", "a quarter to", "quarter before", "viertel vor"]),
                        ("ruleQuarterAfterHH", ["quarter past", "quarter after", "a quarter past", "viertel nach"]),
                        ("ruleHalfBeforeHH", ["halb", "half to", "half before"]),
                        ("ruleHalfAfterHH", ["half past", "half after", "halb nach"])):
        for w in words:
            out.append(("C06 spoken quarter/half", rule, 0, w, {}))
    # ---- C07 joiners and half-open words
    for w in ("-", "to", "bis", "until", "and", "und", "/"):
        out.append(("C07 range joiners", "ruleDateDate", 1, w, {}))
    for w in ("between", "from", "von", "zwischen"):
        out.append(("C07 range joiners", "ruleAbsorbFromInterval", 0, w, {}))
    for w, neg in (("before", False), ("vor", False), ("bis", False), ("not before", True), ("nicht vor", True)):
        out.append(("C07 before/after words", "ruleBeforeTime", 0, w, {"not": neg}))
    for w, neg in (("after", False), ("nach", False), ("from", False), ("ab", False), ("not after", True), ("nicht nach", True)):
        out.append(("C07 before/after words", "ruleAfterTime", 0, w, {"not": neg}))
    # ---- C20 absorbing words
    for w in ("at", "on", "um", "am", "the"):
        out.append(("C20 connecting words", "ruleAbsorbOnTime", 0, w, {}))
    # ---- C08 durations
    for unit, words in UNIT_WORDS.items():
        for uw in words:
            for n in (0, 1, 7, 31, 120):
                g = {"d_" + u: (u == unit) for u in UNIT_WORDS}
                g["num"] = n
                out.append(("C08 digit durations", "ruleDigitDuration", 0, "%d %s" % (n, uw), g))
    for n in range(1, 32):
        for nw in en_number(n) + de_number(n):
            for unit, uw in (("days", "days"), ("days", "tage"), ("hours", "stunden"), ("weeks", "weeks"), ("nights", "nächte")):
                g = {"n_%d" % k: (k == n) for k in range(1, 32)}
                g.update({"d_" + u: (u == unit) for u in UNIT_WORDS})
                out.append(("C08 number words", "ruleNamedNumberDuration", 0, "%s %s" % (nw, uw), g))
    for w, unit in (("half an hour", "hours"), ("half a day", "days"), ("halbe stunde", "hours"), ("1/2 hour", "hours")):
        g = {"d_" + u: (u == unit) for u in UNIT_WORDS}
        out.append(("C08 half durations", "ruleDurationHalf", 0, w, g))
    for w in ("for", "für"):
        out.append(("C08 duration connectives", "ruleTimeDuration", 1, w, {}))
    return out
