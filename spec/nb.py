"""Textbook Laplace-smoothed multinomial naive Bayes over 1..3-grams, written independently of
the code (native Python floats); used by the replay harness and the bounded vectoriser check."""
import math
from collections import Counter


def ngrams(doc, lo=1, hi=3):
    out = []
    for n in range(lo, hi + 1):
        for i in range(0, len(doc) - n + 1):
            out.append(" ".join(doc[i:i + n]))
    return out


def fit(docs, ys, alpha=1.0, lo=1, hi=3):
    grams = [Counter(ngrams(d, lo, hi)) for d in docs]
    vocab = sorted(set(g for c in grams for g in c))
    idx = {g: i for i, g in enumerate(vocab)}
    npos = sum(1 for y in ys if y == 1)
    nneg = len(ys) - npos
    prior = (math.log(nneg / len(ys)), math.log(npos / len(ys)))
    cnt = {1: [alpha] * len(vocab), -1: [alpha] * len(vocab)}
    for c, y in zip(grams, ys):
        for g, k in c.items():
            cnt[1 if y == 1 else -1][idx[g]] += k
    ll = {}
    for cls in (1, -1):
        tot = sum(cnt[cls])
        ll[cls] = [math.log(x) - math.log(tot) for x in cnt[cls]]
    return {"vocab": idx, "prior": prior, "ll": ll, "lo": lo, "hi": hi}


def posterior(joint):
    m = max(joint)
    lse = m + math.log(sum(math.exp(j - m) for j in joint))
    return tuple(j - lse for j in joint)


def predict_log_proba(model, doc):
    c = Counter(g for g in ngrams(doc, model["lo"], model["hi"]) if g in model["vocab"])      # unknown n-grams ignored
    jn = model["prior"][0] + sum(model["ll"][-1][model["vocab"][g]] * k for g, k in c.items())
    jp = model["prior"][1] + sum(model["ll"][1][model["vocab"][g]] * k for g, k in c.items())
    return posterior((jn, jp))
