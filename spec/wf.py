"""Well-formedness invariant: the first sentence of C02 as a predicate (DESIGN 3.2).
It is pre- and postcondition of every rule."""
from pyvc.logic import And, Or, Not, If, Eq, Implies
from spec import calendar as cal
from spec.views import (fld, has, v, val, isnone, kind, str_where, str_lookup_int, opt_obj, TIME_FIELDS)

DUR_MAX = 9999


def wf_ts(ts):
    """reference time: 1970-01-01 .. 2100-12-31, any time of day incl. sub-minute components"""
    return And(ts.year >= cal.TS_YEAR_MIN, ts.year <= cal.TS_YEAR_MAX,
               cal.valid_date(ts.year, ts.month, ts.day),
               ts.hour >= 0, ts.hour <= 23, ts.minute >= 0, ts.minute <= 59,
               ts.second >= 0, ts.second <= 59, ts.microsecond >= 0, ts.microsecond <= 999999)


def in_range(o, name, lo, hi):
    return Or(Not(has(o, name)), And(v(o, name) >= lo, v(o, name) <= hi))


def wf_time(t, pod_table, year_max=None):
    """year_max: stand-alone Time values stay below WF_YEAR_MAX_TIME, the ends of an Interval below
    WF_YEAR_MAX (an end can lie up to 9999 months after a stand-alone value); both bounds are
    inductive over the rule base and far inside datetime's 1..9999"""
    pod = fld(t, "POD")
    if year_max is None:
        year_max = cal.WF_YEAR_MAX_TIME
    return And(
        in_range(t, "year", cal.WF_YEAR_MIN, year_max),
        in_range(t, "month", 1, 12),
        in_range(t, "day", 1, 31),
        in_range(t, "hour", 0, 23),
        in_range(t, "minute", 0, 59),
        in_range(t, "DOW", 0, 6),
        Or(isnone(pod), str_where(val(pod), lambda s: s in pod_table)),
        Implies(And(has(t, "month"), has(t, "day")), v(t, "day") <= cal.dim_max(v(t, "month"))),
        Implies(And(has(t, "year"), has(t, "month"), has(t, "day")),
                cal.valid_date(v(t, "year"), v(t, "month"), v(t, "day"))),
    )


def start_hm(t, pod_table):
    """(hour, minute) of Time.start as the accessor defines it"""
    pod = fld(t, "POD")
    use_pod = And(Not(has(t, "hour")), Not(isnone(pod)))
    h = If(use_pod, str_lookup_int(val(pod), pod_table, lambda e: e[0]) if not _is_none_const(pod) else 0,
           If(has(t, "hour"), v(t, "hour"), 0))
    m = If(has(t, "minute"), v(t, "minute"), 0)
    return h, m


def end_hm(t, pod_table):
    pod = fld(t, "POD")
    use_pod = And(Not(has(t, "hour")), Not(isnone(pod)))
    h = If(use_pod, str_lookup_int(val(pod), pod_table, lambda e: e[1]) if not _is_none_const(pod) else 0,
           If(has(t, "hour"), v(t, "hour"), 23))
    m = If(has(t, "minute"), v(t, "minute"), 59)
    return h, m


def _is_none_const(x):
    return x is None


def dated(t):
    return And(has(t, "year"), has(t, "month"), has(t, "day"))


def minutes_of(t, hm):
    h, m = hm
    return cal.ordinal(v(t, "year"), v(t, "month"), v(t, "day")) * 1440 + h * 60 + m


def wf_interval(i, pod_table):
    fn, f = opt_obj(fld(i, "t_from"))
    tn, t = opt_obj(fld(i, "t_to"))
    cs = [Not(And(fn, tn))]
    if f is not None:
        cs.append(Or(fn, wf_time(f, pod_table, cal.WF_YEAR_MAX)))
    if t is not None:
        cs.append(Or(tn, wf_time(t, pod_table, cal.WF_YEAR_MAX)))
    if f is not None and t is not None:
        cs.append(Implies(And(Not(fn), Not(tn), dated(f), dated(t)),
                          minutes_of(f, start_hm(f, pod_table)) <= minutes_of(t, end_hm(t, pod_table))))
    return And(*cs)


def wf_duration(d, unit_ok):
    return And(v(d, "value") >= 0, v(d, "value") <= DUR_MAX, unit_ok(fld(d, "unit")))


def wf_span(a):
    return And(v(a, "mstart") >= 0, v(a, "mstart") < v(a, "mend"))


def aux_interval(i):
    """auxiliary inductive invariant of date-less clock ranges (needed for C07's 'never inverted'):
    when both ends are plain times of day written in 12-hour range, the start hour is not after
    the end hour -- ruleTODTOD establishes it by its am->pm shift, the other rules preserve it"""
    from spec.views import only
    fn, f = opt_obj(fld(i, "t_from"))
    tn, t = opt_obj(fld(i, "t_to"))
    if f is None or t is None:
        return True
    tod = lambda x: Or(only(x, "hour"), only(x, "hour", "minute"))
    return Implies(And(Not(fn), Not(tn), tod(f), tod(t), v(f, "hour") <= 12, v(t, "hour") <= 12),
                   v(f, "hour") <= v(t, "hour"))
